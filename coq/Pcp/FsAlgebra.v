(* Equations between tree updates: what is stored is found again, an update below a node is an
   update of that node, two updates of the same place collapse. *)
From PV Require Import Pcp.FsModel Pcp.FsFacts.
Local Open Scope N_scope.

Lemma lookup_app : forall p s n, lookup n (p ++ s) = match lookup n p with Some x => lookup x s | None => None end.
Proof.
  induction p as [|c p IH]; intros s n; [reflexivity|].
  cbn [app lookup]. destruct n as [|m t ents]; [reflexivity|].
  destruct (assoc c ents); [apply IH|reflexivity].
Qed.

(* A1/A2 *)
Lemma lookup_set_at : forall p n new n', set_at n p new = Some n' -> lookup n' p = Some new.
Proof.
  induction p as [|c p IH]; intros n new n' H.
  - cbn in H. inversion H. reflexivity.
  - cbn [set_at] in H. destruct n as [|m t ents]; [discriminate|].
    destruct p as [|c2 p2].
    + inversion H; subst. cbn [lookup]. now rewrite assoc_put_same.
    + destruct (assoc c ents) as [ch|]; [|discriminate].
      destruct (set_at ch (c2 :: p2) new) as [ch'|] eqn:E; [|discriminate].
      inversion H; subst. cbn [lookup]. rewrite assoc_put_same. fold (lookup ch' (c2 :: p2)). eapply IH; eauto.
Qed.

Lemma lookup_set_at_under p s n new n' : set_at n p new = Some n' -> lookup n' (p ++ s) = lookup new s.
Proof. intro H. rewrite lookup_app, (lookup_set_at _ _ _ _ H). reflexivity. Qed.

(* A3: an update below p is an update of the node at p *)
Lemma set_at_below : forall p s n X Y, lookup n p = Some X ->
  set_at n (p ++ s) Y = match set_at X s Y with Some X' => set_at n p X' | None => None end.
Proof.
  induction p as [|c p IH]; intros s n X Y H.
  - cbn in H. inversion H; subst. cbn [app]. destruct (set_at X s Y); reflexivity.
  - cbn [lookup] in H. destruct n as [|m t ents]; [discriminate|].
    destruct (assoc c ents) as [ch|] eqn:Ea; [|discriminate].
    cbn [app set_at].
    destruct p as [|c2 p2].
    + cbn in H. inversion H; subst X. cbn [app].
      destruct s as [|s1 s2].
      * cbn; rewrite ?Ea; reflexivity.
      * rewrite Ea. destruct (set_at ch (s1 :: s2) Y) as [ch'|]; [|reflexivity].
        cbn; rewrite ?Ea; reflexivity.
    + change ((c2 :: p2) ++ s) with (c2 :: (p2 ++ s)). cbv iota. rewrite Ea.
      change (c2 :: (p2 ++ s)) with ((c2 :: p2) ++ s).
      rewrite (IH s ch X Y H).
      destruct (set_at X s Y) as [X'|]; reflexivity.
Qed.

Lemma assoc_put_put k a b l : assoc_put k b (assoc_put k a l) = assoc_put k b l.
Proof.
  induction l as [|[k' v'] r IH]; cbn [assoc_put].
  - now rewrite beq_refl.
  - destruct (beq k k') eqn:E; cbn [assoc_put]; [now rewrite beq_refl|]. rewrite E. now rewrite IH.
Qed.

Lemma assoc_put_fresh k v l : assoc k l = None -> assoc_put k v l = l ++ [(k, v)].
Proof.
  induction l as [|[k' v'] r IH]; cbn [assoc assoc_put app]; [reflexivity|].
  destruct (beq k k'); [discriminate|]. intro H. now rewrite IH.
Qed.

Lemma set_at_cons2 m t ents c c2 p2 new :
  set_at (Dir m t ents) (c :: c2 :: p2) new =
  match assoc c ents with
  | Some ch => match set_at ch (c2 :: p2) new with
               | Some ch' => Some (Dir m t (assoc_put c ch' ents))
               | None => None
               end
  | None => None
  end.
Proof. reflexivity. Qed.

(* A4: two updates of the same place *)
Lemma set_at_twice : forall p n a b n1, set_at n p a = Some n1 -> set_at n1 p b = set_at n p b.
Proof.
  induction p as [|c p IH]; intros n a b n1 H.
  - reflexivity.
  - cbn [set_at] in H. destruct n as [|m t ents]; [discriminate|].
    destruct p as [|c2 p2].
    + inversion H; subst n1. cbn [set_at]. rewrite assoc_put_same, assoc_put_put.
      destruct (assoc c ents); reflexivity.
    + destruct (assoc c ents) as [ch|] eqn:Ea; [|discriminate].
      destruct (set_at ch (c2 :: p2) a) as [ch'|] eqn:E; [|discriminate].
      inversion H; subst n1. rewrite !set_at_cons2, assoc_put_same, Ea.
      rewrite (IH ch a b ch' E). destruct (set_at ch (c2 :: p2) b); [|reflexivity].
      now rewrite assoc_put_put.
Qed.

(* adding an entry to an existing directory *)
Lemma set_at_new_entry n q m t ents c v :
  lookup n q = Some (Dir m t ents) -> assoc c ents = None ->
  set_at n (q ++ [c]) v = set_at n q (Dir m None (ents ++ [(c, v)])).
Proof.
  intros H Ha. rewrite (set_at_below q [c] n _ v H). cbn [set_at]. rewrite Ha, assoc_put_fresh by exact Ha. reflexivity.
Qed.

Lemma set_at_exists : forall p n X new, lookup n p = Some X -> exists n', set_at n p new = Some n'.
Proof.
  induction p as [|c p IH]; intros n X new H; [cbn; eauto|].
  cbn [lookup] in H. destruct n as [|m t ents]; [discriminate|].
  destruct (assoc c ents) as [ch|] eqn:Ea; [|discriminate].
  cbn [set_at]. destruct p as [|c2 p2]; [eauto|]. rewrite Ea.
  destruct (IH ch X new H) as [ch' ->]. eauto.
Qed.

Lemma lookup_none_app p s n : lookup n p = None -> lookup n (p ++ s) = None.
Proof. intro H. now rewrite lookup_app, H. Qed.

Lemma is_dir_lookup n p : is_dir n p = true <-> exists m t e, lookup n p = Some (Dir m t e).
Proof.
  unfold is_dir. split.
  - destruct (lookup n p) as [[|m t e]|]; try discriminate. eauto.
  - intros (m & t & e & ->). reflexivity.
Qed.
