(* Facts about the abstract file system: the calls only add nodes or change attributes and
   contents (ext), resolution of a path string is stable under such changes, and joining a
   plain name to a directory string resolves to that directory or to an entry of it. *)
From PV Require Import Pcp.FsModel.
Local Open Scope N_scope.

(* ---- association lists ---- *)
Lemma assoc_put_same k v l : assoc k (assoc_put k v l) = Some v.
Proof.
  induction l as [|[k' v'] r IH]; cbn [assoc assoc_put].
  - now rewrite beq_refl.
  - destruct (beq k k') eqn:E; cbn [assoc]; [now rewrite beq_refl|now rewrite E].
Qed.

Lemma assoc_put_other k d v l : beq d k = false -> assoc d (assoc_put k v l) = assoc d l.
Proof.
  intro H. induction l as [|[k' v'] r IH]; cbn [assoc assoc_put].
  - now rewrite H.
  - destruct (beq k k') eqn:E; cbn [assoc].
    + apply beq_eq in E. subst k'. now rewrite H.
    + destruct (beq d k'); auto.
Qed.

Lemma beq_sym a b : beq a b = beq b a.
Proof.
  destruct (beq a b) eqn:E.
  - apply beq_eq in E. subst. now rewrite beq_refl.
  - destruct (beq b a) eqn:E2; auto. apply beq_eq in E2. subst. now rewrite beq_refl in E.
Qed.

(* ---- ext: every directory stays a directory ---- *)
Definition ext (a b : node) : Prop := forall p, is_dir a p = true -> is_dir b p = true.

Lemma ext_refl a : ext a a.
Proof. intros p H; exact H. Qed.

Lemma ext_trans a b c : ext a b -> ext b c -> ext a c.
Proof. intros H1 H2 p H. auto. Qed.

(* what may replace a node *)
Definition compat (old new : node) : Prop :=
  match old with
  | File _ _ _ => True
  | Dir _ _ e => match new with Dir _ _ e' => e = e' | File _ _ _ => False end
  end.

Lemma is_dir_nil n : is_dir n [] = match n with Dir _ _ _ => true | _ => false end.
Proof. reflexivity. Qed.

Lemma is_dir_cons n c q :
  is_dir n (c :: q) = match n with
                      | Dir _ _ e => match assoc c e with Some ch => is_dir ch q | None => false end
                      | File _ _ _ => false
                      end.
Proof.
  unfold is_dir. cbn [lookup]. destruct n as [|m t e]; auto. destruct (assoc c e); auto.
Qed.

Lemma compat_dir old new q : compat old new -> is_dir old q = true -> is_dir new q = true.
Proof.
  destruct old as [m t d|m t e]; cbn [compat].
  - intros _. destruct q; [rewrite is_dir_nil|rewrite is_dir_cons]; discriminate.
  - destruct new as [|m' t' e']; [tauto|]. intros ->.
    destruct q; [now rewrite !is_dir_nil|now rewrite !is_dir_cons].
Qed.

Lemma set_at_cons_dir c p n new n' : set_at n (c :: p) new = Some n' -> is_dir n' [] = true.
Proof.
  cbn [set_at]. destruct n as [|m t ents]; [discriminate|].
  destruct p as [|c2 p2]; [intro H; inversion H; reflexivity|].
  destruct (assoc c ents) as [ch|]; [|discriminate].
  destruct (set_at ch (c2 :: p2) new); intro H; inversion H; reflexivity.
Qed.

Lemma set_at_ext : forall p n n' new,
  set_at n p new = Some n' ->
  match lookup n p with None => True | Some old => compat old new end ->
  ext n n'.
Proof.
  induction p as [|c p' IH]; intros n n' new Hs Hc q Hq.
  - cbn in Hs. inversion Hs; subst n'. cbn in Hc. eapply compat_dir; eauto.
  - destruct q as [|d q']; [eapply set_at_cons_dir; eauto|].
    cbn [set_at] in Hs. destruct n as [|m t ents]; [discriminate|].
    cbn [lookup] in Hc.
    rewrite is_dir_cons in Hq.
    destruct p' as [|c2 p''].
    + inversion Hs; subst n'. rewrite is_dir_cons.
      destruct (beq d c) eqn:E.
      * apply beq_eq in E. subst d. rewrite assoc_put_same.
        destruct (assoc c ents) as [old|]; [|discriminate].
        cbn [lookup] in Hc. eapply compat_dir; eauto.
      * rewrite assoc_put_other by exact E. exact Hq.
    + destruct (assoc c ents) as [ch|] eqn:Ea; [|discriminate].
      destruct (set_at ch (c2 :: p'') new) as [ch'|] eqn:Es; [|discriminate].
      inversion Hs; subst n'. rewrite is_dir_cons.
      destruct (beq d c) eqn:E.
      * apply beq_eq in E. subst d. rewrite assoc_put_same. rewrite Ea in Hq.
        eapply IH; eauto.
      * rewrite assoc_put_other by exact E. exact Hq.
Qed.

Lemma compat_set_mode n m : compat n (set_mode n m).
Proof. destruct n; cbn; auto. Qed.
Lemma compat_set_mtime n t : compat n (set_mtime n t).
Proof. destruct n; cbn; auto. Qed.

(* ---- every call extends the tree ---- *)
Lemma fs_mkdir_ext root cwd s mode um p root' :
  fs_mkdir root cwd s mode um = (p, Some root') -> ext root root'.
Proof.
  unfold fs_mkdir. destruct (resolve root cwd s) as [|q t]; [discriminate|].
  destruct q as [|c q]; [destruct (lookup root []); discriminate|].
  destruct (lookup root (c :: q)) eqn:E; [discriminate|].
  intro H. inversion H as [[Hp Hs]]. eapply (set_at_ext (c :: q)); [exact Hs|]. now rewrite E.
Qed.

Lemma fs_chmod_ext root cwd s mode p root' :
  fs_chmod root cwd s mode = (p, Some root') -> ext root root'.
Proof.
  unfold fs_chmod. destruct (fs_stat root cwd s) as [[q k]|]; [|destruct (resolve root cwd s); discriminate].
  destruct (lookup root q) eqn:E; [|discriminate].
  intro H. inversion H. eapply set_at_ext; eauto. rewrite E. apply compat_set_mode.
Qed.

Lemma fs_utimes_ext root cwd s a b c p root' :
  fs_utimes root cwd s a b c = (p, Some root') -> ext root root'.
Proof.
  unfold fs_utimes. destruct (fs_stat root cwd s) as [[q k]|]; [|destruct (resolve root cwd s); discriminate].
  destruct (time_ok b && time_ok c); [|discriminate].
  destruct (lookup root q) eqn:E; [|discriminate].
  intro H. inversion H. eapply set_at_ext; eauto. rewrite E. apply compat_set_mtime.
Qed.

Lemma fs_open_ext root cwd s mode um p root' ex :
  fs_open root cwd s mode um = (p, Some (root', ex)) -> ext root root'.
Proof.
  unfold fs_open. destruct (resolve root cwd s) as [|q t]; [discriminate|].
  destruct (lookup root q) as [[m0 t0 d0|m0 t0 e0]|] eqn:E; [|discriminate|].
  - destruct t; [discriminate|]. intro H. inversion H. apply ext_refl.
  - destruct t; [discriminate|]. destruct q as [|c q]; [discriminate|].
    destruct (set_at root (c :: q) _) eqn:Es; [|discriminate].
    intro H. inversion H; subst. eapply set_at_ext; eauto. now rewrite E.
Qed.

Lemma fs_write_ext root p off data root' : fs_write root p off data = Some root' -> ext root root'.
Proof.
  unfold fs_write. destruct (lookup root p) as [[m t d|]|] eqn:E; try discriminate.
  intro H. eapply set_at_ext; eauto. rewrite E. exact I.
Qed.

Lemma fs_truncate_ext root p size root' : fs_truncate root p size = Some root' -> ext root root'.
Proof.
  unfold fs_truncate. destruct (size <? 0)%Z; [discriminate|].
  destruct (lookup root p) as [[m t d|]|] eqn:E; try discriminate.
  intro H. eapply set_at_ext; eauto. rewrite E. exact I.
Qed.

Lemma fs_fchmod_ext root p mode root' : fs_fchmod root p mode = Some root' -> ext root root'.
Proof.
  unfold fs_fchmod. destruct (lookup root p) eqn:E; [|discriminate].
  intro H. eapply set_at_ext; eauto. rewrite E. apply compat_set_mode.
Qed.

(* ---- resolution is stable under ext ---- *)
Lemma fold_wstep_none root comps : fold_left (wstep root) comps None = None.
Proof. induction comps; cbn; auto. Qed.

Lemma descend_ext a b s q : ext a b -> descend a s = Some q -> descend b s = Some q.
Proof.
  unfold descend. intros He. destruct (ws_pend s); auto.
  destruct (is_dir a (ws_cur s ++ [n])) eqn:E; [|discriminate].
  now rewrite (He _ E).
Qed.

Lemma wstep_ext a b st c s' : ext a b -> wstep a st c = Some s' -> wstep b st c = Some s'.
Proof.
  intros He. destruct st as [s|]; [|discriminate]. cbn [wstep].
  destruct c as [|x c']; auto.
  destruct (descend a s) as [cur|] eqn:Ed; [|discriminate].
  now rewrite (descend_ext _ _ _ _ He Ed).
Qed.

Lemma fold_wstep_ext a b : ext a b -> forall comps st s',
  fold_left (wstep a) comps st = Some s' -> fold_left (wstep b) comps st = Some s'.
Proof.
  intros He. induction comps as [|c r IH]; intros st s' H; cbn [fold_left] in *; auto.
  destruct (wstep a st c) as [s1|] eqn:E.
  - rewrite (wstep_ext _ _ _ _ _ He E). auto.
  - rewrite fold_wstep_none in H. discriminate.
Qed.

Lemma resolve_ext a b cwd s p t : ext a b -> resolve a cwd s = ROk p t -> resolve b cwd s = ROk p t.
Proof.
  unfold resolve. intros He H.
  destruct (fold_left (wstep a) (split_all c_slash s) (wstart cwd s)) as [s'|] eqn:E; [|discriminate].
  now rewrite (fold_wstep_ext _ _ He _ _ _ E).
Qed.

(* ---- joining a name ---- *)
Lemma split_all_cat c a b : split_all c (a ++ c :: b) = split_all c a ++ split_all c b.
Proof.
  induction a as [|x r IH]; cbn [app split_all].
  - now rewrite N.eqb_refl.
  - destruct (x =? c) eqn:E.
    + now rewrite IH.
    + rewrite IH. pose proof (split_all_nonempty c r) as Hn.
      destruct (split_all c r) as [|p ps]; [congruence|]. reflexivity.
Qed.

Lemma resolve_nil root cwd : resolve root cwd [] = RErr.
Proof. reflexivity. Qed.

Definition plain_name (nm : bytes) : Prop := ~ In c_slash nm /\ nm <> dotdot.

Lemma wstart_join cwd targ nm s :
  targ <> [] -> wstart cwd (targ ++ c_slash :: nm) = Some s -> wstart cwd targ = Some s.
Proof.
  destruct targ as [|c r]; [congruence|]. intros _. cbn [app wstart].
  destruct (PATH_MAX <=? length (c :: r ++ c_slash :: nm))%nat eqn:E; [discriminate|].
  intro H. destruct (PATH_MAX <=? length (c :: r))%nat eqn:E2; auto.
  apply Nat.leb_le in E2. apply Nat.leb_gt in E. cbn [length] in *. rewrite app_length in E. lia.
Qed.

Lemma resolve_join root cwd targ nm p t :
  targ <> [] -> plain_name nm ->
  resolve root cwd (targ ++ c_slash :: nm) = ROk p t ->
  exists q t', resolve root cwd targ = ROk q t' /\ (p = q \/ p = q ++ [nm]).
Proof.
  intros Hne [Hns Hdd]. unfold resolve.
  rewrite split_all_cat, (split_all_plain _ nm Hns), fold_left_app. cbn [fold_left].
  destruct (wstart cwd (targ ++ c_slash :: nm)) as [s0|] eqn:Es0.
  2:{ rewrite fold_wstep_none. cbn. discriminate. }
  rewrite (wstart_join _ _ _ _ Hne Es0). unfold name, bytes in *.
  match goal with |- context [wstep root ?X nm] => destruct X as [s|] eqn:Ef end; [|cbn [wstep wfinish]; discriminate].
  cbn [wstep wfinish].
  destruct nm as [|x nm'].
  - cbn [wfinish ws_pend ws_cur ws_trail]. intro H.
    destruct (ws_pend s) as [d|]; inversion H; subst; eauto.
  - destruct (descend root s) as [cur|] eqn:Ed; [|discriminate].
    assert (Hq : exists t', match ws_pend s with
                            | Some d => ROk (ws_cur s ++ [d]) (ws_trail s)
                            | None => ROk (ws_cur s) true
                            end = ROk cur t').
    { unfold descend in Ed. destruct (ws_pend s) as [d|].
      - destruct (is_dir root (ws_cur s ++ [d])); inversion Ed; eauto.
      - inversion Ed; eauto. }
    destruct Hq as [t' Hq]. rewrite Hq.
    destruct (beq (x :: nm') dot).
    { cbn. intro H; inversion H; subst; eauto. }
    destruct (beq (x :: nm') dotdot) eqn:Edd.
    { apply beq_eq in Edd. congruence. }
    destruct (NAME_MAX <? length (x :: nm'))%nat; [discriminate|].
    cbn. intro H; inversion H; subst; eauto.
Qed.

(* ---- resolved paths are canonical: no empty component, no ".", no "..", no '/' ---- *)
Definition canon_comp (c : name) : Prop := c <> [] /\ c <> dot /\ c <> dotdot /\ ~ In c_slash c.
Definition canon (p : path) : Prop := Forall canon_comp p.

Lemma split_all_no_sep c : forall s x, In x (split_all c s) -> ~ In c x.
Proof.
  induction s as [|y r IH]; intros x Hx; cbn [split_all] in Hx.
  - destruct Hx as [<-|[]]. intros [].
  - destruct (y =? c) eqn:E.
    + destruct Hx as [<-|Hx]; [intros []|auto].
    + pose proof (split_all_nonempty c r) as Hn.
      destruct (split_all c r) as [|p ps] eqn:Es; [congruence|].
      destruct Hx as [<-|Hx].
      * intros [->|Hin]; [rewrite N.eqb_refl in E; discriminate|]. apply (IH p); [left; reflexivity|exact Hin].
      * apply IH. right. exact Hx.
Qed.

Lemma Forall_removelast {A} (Q : A -> Prop) (l : list A) : Forall Q l -> Forall Q (removelast l).
Proof.
  induction l as [|a l IH]; intro H; [constructor|].
  inversion H; subst. cbn [removelast]. destruct l; [constructor|]. constructor; auto.
Qed.

Definition ws_canon (s : wstate) : Prop :=
  canon (ws_cur s) /\ (forall d, ws_pend s = Some d -> canon_comp d).

Lemma descend_canon root s q : ws_canon s -> descend root s = Some q -> canon q.
Proof.
  intros [Hc Hp]. unfold descend. destruct (ws_pend s) as [d|].
  - destruct (is_dir root (ws_cur s ++ [d])); [|discriminate]. intro H; inversion H; subst.
    apply Forall_app. split; auto.
  - intro H; inversion H; subst; auto.
Qed.

Lemma wstep_canon root st c s' :
  ~ In c_slash c -> (forall s, st = Some s -> ws_canon s) -> wstep root st c = Some s' -> ws_canon s'.
Proof.
  intros Hns Hst. destruct st as [s|]; [|discriminate]. specialize (Hst s eq_refl). cbn [wstep].
  destruct c as [|x c'].
  - intro H; inversion H; subst. exact Hst.
  - destruct (descend root s) as [cur|] eqn:Ed; [|discriminate].
    pose proof (descend_canon _ _ _ Hst Ed) as Hcur.
    destruct (beq (x :: c') dot) eqn:E1.
    { intro H; inversion H; subst. split; cbn; auto. discriminate. }
    destruct (beq (x :: c') dotdot) eqn:E2.
    { intro H; inversion H; subst. split; cbn; [apply Forall_removelast; auto|discriminate]. }
    destruct (NAME_MAX <? length (x :: c'))%nat; [discriminate|].
    intro H; inversion H; subst. split; cbn; auto.
    intros d Hd; inversion Hd; subst. repeat split; auto; try discriminate.
    + intro E. rewrite E, beq_refl in E1. discriminate.
    + intro E. rewrite E, beq_refl in E2. discriminate.
Qed.

Lemma fold_wstep_canon root : forall comps st s',
  (forall c, In c comps -> ~ In c_slash c) -> (forall s, st = Some s -> ws_canon s) ->
  fold_left (wstep root) comps st = Some s' -> ws_canon s'.
Proof.
  induction comps as [|c r IH]; intros st s' Hc Hst H; cbn [fold_left] in H.
  - apply Hst. exact H.
  - eapply IH; [| |exact H].
    + intros c' Hin. apply Hc. right. exact Hin.
    + intros s1 E1. eapply wstep_canon; [|exact Hst|exact E1]. apply Hc. left. reflexivity.
Qed.

Lemma resolve_canon root cwd s p t : canon cwd -> resolve root cwd s = ROk p t -> canon p.
Proof.
  intros Hcwd. unfold resolve.
  destruct (fold_left (wstep root) (split_all c_slash s) (wstart cwd s)) as [s'|] eqn:E; [|discriminate].
  assert (Hs' : ws_canon s').
  { eapply fold_wstep_canon; [| |exact E].
    - intros c Hin. eapply split_all_no_sep; eauto.
    - intros s0 E0. unfold wstart in E0. destruct s as [|c0 r0]; [discriminate|].
      destruct (PATH_MAX <=? length (c0 :: r0))%nat; [discriminate|]. inversion E0; subst.
      split; cbn; [destruct (c0 =? c_slash); [constructor|exact Hcwd]|discriminate]. }
  destruct Hs' as [Hc Hp]. cbn [wfinish].
  destruct (ws_pend s') as [d|] eqn:Ed; intro H; inversion H; subst; auto.
  apply Forall_app. split; auto.
Qed.
