(* C12_malformed_answered: every control line the receiver reads that is not an acceptable
   record (PcpSpec.acceptable) is answered, immediately, by an error record. *)
From PV Require Import Pcp.FsModel Pcp.PcpSink Pcp.FsFacts Pcp.PcpSpec Pcp.PcpSinkFacts.
Local Open Scope N_scope.

(* ---- the scanners against the specification's view of the line (the C string) ---- *)
Lemma cstr_cons c r s : c <> 0 -> cstr_of (c :: r) = Some s -> exists s', s = c :: s' /\ cstr_of r = Some s'.
Proof.
  intros Hc. cbn [cstr_of]. destruct (c =? 0) eqn:E; [apply N.eqb_eq in E; congruence|].
  destruct (cstr_of r) as [s'|]; [|discriminate]. cbn. intro H; inversion H; eauto.
Qed.

Lemma getnum_spec : forall r acc v r' s,
  getnum r acc = POk (v, r') -> cstr_of r = Some s -> cstr_of r' = Some (drop_while is_digit s).
Proof.
  induction r as [|c r0 IH]; intros acc v r' s H Hs; [discriminate|].
  cbn [getnum] in H. destruct (is_digit c) eqn:Ed.
  - destruct (cstr_cons c r0 s (digit_not0 _ Ed) Hs) as (s0 & -> & Hs0).
    cbn [drop_while]. rewrite Ed. eapply IH; eauto.
  - inversion H; subst. rewrite Hs. f_equal.
    cbn [cstr_of] in Hs. destruct (c =? 0).
    + inversion Hs. reflexivity.
    + destruct (cstr_of r0); [|discriminate]. cbn in Hs. inversion Hs. cbn [drop_while]. now rewrite Ed.
Qed.

Lemma expectc_spec c why r r' s :
  c <> 0 -> expectc c why r = POk r' -> cstr_of r = Some s -> exists s', s = c :: s' /\ cstr_of r' = Some s'.
Proof.
  intros Hc. destruct r as [|x r0]; [discriminate|]. cbn [expectc].
  destruct (x =? c) eqn:E; [|discriminate]. apply N.eqb_eq in E. subst x.
  intro H; inversion H; subst. apply cstr_cons. exact Hc.
Qed.

Lemma expect0_spec why r r' s : expectc 0 why r = POk r' -> cstr_of r = Some s -> s = [].
Proof.
  destruct r as [|x r0]; [discriminate|]. cbn [expectc cstr_of].
  destruct (x =? 0); [|discriminate]. intros _ H. now inversion H.
Qed.

Lemma getmode_spec : forall k r acc m r' s,
  getmode k r acc = POk (m, r') -> cstr_of r = Some s ->
  exists ds s', s = ds ++ s' /\ length ds = k /\ forallb is_octal ds = true /\ cstr_of r' = Some s'.
Proof.
  induction k as [|k IH]; intros r acc m r' s H Hs.
  - cbn in H. inversion H; subst. exists [], s. auto.
  - cbn [getmode] in H. destruct r as [|c r0]; [discriminate|].
    destruct ((c <? 48) || (55 <? c)) eqn:E; [discriminate|].
    apply orb_false_iff in E as [E1 E2]. apply N.ltb_ge in E1. apply N.ltb_ge in E2.
    destruct (cstr_cons c r0 s ltac:(lia) Hs) as (s0 & -> & Hs0).
    destruct (IH _ _ _ _ _ H Hs0) as (ds & s' & -> & Hl & Ho & Hr).
    exists (c :: ds), s'. cbn [app length forallb]. repeat split; auto.
    rewrite Ho. unfold is_octal. apply andb_true_iff. split; [apply andb_true_iff; split; apply N.leb_le; lia|reflexivity].
Qed.

Lemma after_number_spec sep why r acc v r1 r2 s :
  sep <> 0 -> getnum r acc = POk (v, r1) -> expectc sep why r1 = POk r2 -> cstr_of r = Some s ->
  exists s', after_number sep s = Some s' /\ cstr_of r2 = Some s'.
Proof.
  intros Hsep Hg He Hs. pose proof (getnum_spec _ _ _ _ _ Hg Hs) as H1.
  destruct (expectc_spec _ _ _ _ _ Hsep He H1) as (s' & E & H2).
  exists s'. unfold after_number. rewrite E, N.eqb_refl. auto.
Qed.

Ltac pinv H :=
  match type of H with
  | pbind ?e _ = POk _ => let E := fresh "E" in destruct e as [| |?] eqn:E; cbn [pbind] in H; try discriminate
  end.
Ltac pinvp H x y :=
  match type of H with
  | pbind ?e _ = POk _ => let E := fresh "E" in destruct e as [| |[x y]] eqn:E; cbn [pbind] in H; try discriminate
  end.

Ltac pinv_any H :=
  first [ match type of H with
          | pbind ?e _ = POk _ => let E := fresh "E" in destruct e as [| |[? ?]] eqn:E; cbn [pbind] in H; try discriminate
          end
        | pinv H ].

Lemma parse_times_acceptable r tv s :
  (let r := r in
   '(ms, l) <- getnum r 0%Z ;; l <- expectc c_sp 3 l ;;
   '(mu, l) <- getnum l 0%Z ;; l <- expectc c_sp 4 l ;;
   '(as_, l) <- getnum l 0%Z ;; l <- expectc c_sp 5 l ;;
   '(au, l) <- getnum l 0%Z ;; _ <- expectc 0 6 l ;; POk (CTimes (mkt ms mu as_ au))) = POk (CTimes tv) ->
  cstr_of r = Some s -> valid_times s = true.
Proof.
  cbv zeta. intros H Hs.
  pinvp H ms l1. pinv H. rename a into l2.
  pinvp H mu l3. pinv H. rename a into l4.
  pinvp H as_ l5. pinv H. rename a into l6.
  pinvp H au l7. pinv H.
  destruct (after_number_spec c_sp _ _ _ _ _ _ _ ltac:(discriminate) E E0 Hs) as (s1 & A1 & C1).
  destruct (after_number_spec c_sp _ _ _ _ _ _ _ ltac:(discriminate) E1 E2 C1) as (s2 & A2 & C2).
  destruct (after_number_spec c_sp _ _ _ _ _ _ _ ltac:(discriminate) E3 E4 C2) as (s3 & A3 & C3).
  pose proof (getnum_spec _ _ _ _ _ E5 C3) as C4.
  pose proof (expect0_spec _ _ _ _ E6 C4) as Z.
  unfold valid_times. now rewrite A1, A2, A3, Z.
Qed.

Lemma parse_file_acceptable r isdir mode size nm s b0 :
  ('(mode, l) <- getmode 4 r 0 ;; l <- expectc c_sp 10 l ;;
   '(size, l) <- getnum l 0%Z ;; l <- expectc c_sp 11 l ;;
   match cstr_of l with None => PFault | Some nm => POk (CFile b0 mode size nm) end) = POk (CFile isdir mode size nm) ->
  cstr_of r = Some s -> record_name s = Some nm.
Proof.
  intros H Hs.
  pinvp H m l1. pinv H. rename a into l2.
  pinvp H sz l3. pinv H. rename a into l4.
  destruct (cstr_of l4) as [nm'|] eqn:En; [|discriminate]. inversion H; subst.
  destruct (getmode_spec _ _ _ _ _ _ E Hs) as (ds & s1 & -> & Hl & Ho & C1).
  destruct (expectc_spec c_sp _ _ _ _ ltac:(discriminate) E0 C1) as (s2 & -> & C2).
  destruct (after_number_spec c_sp _ _ _ _ _ _ _ ltac:(discriminate) E1 E2 C2) as (s3 & A3 & C3).
  rewrite En in C3. inversion C3; subst s3.
  destruct ds as [|m1 [|m2 [|m3 [|m4 [|? ?]]]]]; try discriminate.
  cbn [app record_name]. cbn [forallb] in Ho. rewrite andb_true_r in Ho.
  rewrite !andb_true_iff in Ho. destruct Ho as (O1 & O2 & O3 & O4).
  rewrite O1, O2, O3, O4. cbn. exact A3.
Qed.

Lemma parse_ctl_acceptable buf c l :
  parse_ctl buf = POk c -> cstr_of buf = Some l ->
  match c with CTimes _ => True | CFile _ _ _ nm => name_ok nm = true end ->
  acceptable l = true.
Proof.
  intros H Hl Hn. unfold parse_ctl in H. destruct buf as [|b0 r]; [discriminate|].
  destruct (b0 =? c_T) eqn:ET.
  - apply N.eqb_eq in ET. subst b0.
    destruct (cstr_cons c_T r l ltac:(discriminate) Hl) as (s & -> & Hs).
    cbn [acceptable]. cbn.
    destruct c as [tv|]; [|repeat pinv_any H; discriminate].
    eapply parse_times_acceptable; eauto.
  - destruct (negb (b0 =? c_C) && negb (b0 =? c_D)) eqn:EC; [discriminate|].
    assert (Hb : b0 = c_C \/ b0 = c_D).
    { destruct (b0 =? c_C) eqn:E1; [apply N.eqb_eq in E1; auto|].
      destruct (b0 =? c_D) eqn:E2; [apply N.eqb_eq in E2; auto|]. discriminate. }
    assert (Hb0 : b0 <> 0) by (destruct Hb; subst; discriminate).
    destruct (cstr_cons _ _ _ Hb0 Hl) as (s & -> & Hs).
    destruct c as [|isdir mode size nm].
    { repeat pinv_any H. match type of H with context [cstr_of ?x] => destruct (cstr_of x) end; discriminate. }
    pose proof (parse_file_acceptable _ _ _ _ _ _ _ H Hs) as Hr.
    unfold acceptable.
    replace ((b0 =? 1) || (b0 =? 2) || (b0 =? 69)) with false by (destruct Hb; subst; reflexivity).
    replace (b0 =? 84) with false by (destruct Hb; subst; reflexivity).
    replace ((b0 =? 67) || (b0 =? 68)) with true by (destruct Hb; subst; reflexivity).
    rewrite Hr. exact Hn.
Qed.

(* ---- the transcript ---- *)
(* log = newest first; after = the item that follows chronologically *)
Definition line_answered (it : item) (after : option item) : Prop :=
  match it with
  | Line l => acceptable l = false -> match after with Some (Reply (Err _)) => True | _ => False end
  | _ => True
  end.

Fixpoint ans_rev (log : list item) (after : option item) : Prop :=
  match log with
  | [] => True
  | it :: older => line_answered it after /\ ans_rev older (Some it)
  end.

(* chronological reading of the same property *)
Fixpoint answered (chron : list item) : Prop :=
  match chron with
  | [] => True
  | it :: rest => line_answered it (match rest with [] => None | x :: _ => Some x end) /\ answered rest
  end.

Lemma answered_app_single : forall a it,
  answered (a ++ [it]) <->
  (match rev a with [] => True | x :: _ => line_answered x (Some it) end /\
   line_answered it None /\
   (fix all_but_last (l : list item) : Prop :=
      match l with
      | [] => True
      | x :: r => match r with [] => True | y :: _ => line_answered x (Some y) end /\ all_but_last r
      end) a).
Proof.
  induction a as [|x a IH]; intro it.
  - cbn. tauto.
  - change ((x :: a) ++ [it]) with (x :: (a ++ [it])). cbn [answered].
    rewrite IH. cbn [rev].
    destruct a as [|y a'].
    + cbn. tauto.
    + cbn [app]. destruct (rev (y :: a')) eqn:Er.
      * exfalso. apply (f_equal (@length _)) in Er. rewrite rev_length in Er. discriminate.
      * cbn [app]. tauto.
Qed.

Lemma ans_rev_answered : forall log after, ans_rev log after ->
  forall tail, (match tail with [] => after = None | x :: _ => after = Some x end) -> answered tail ->
  answered (rev log ++ tail).
Proof.
  induction log as [|it older IH]; intros after H tail Ht Ha; [exact Ha|].
  cbn [rev]. rewrite <- app_assoc. cbn [app]. destruct H as [H1 H2].
  apply (IH (Some it) H2 (it :: tail)); [reflexivity|].
  cbn [answered]. split; auto. destruct tail; subst; auto.
Qed.

Definition ainv (w : world) : Prop := ans_rev (w_log w) None.

Lemma line_answered_mono it a : line_answered it None -> line_answered it a.
Proof. destruct it; cbn; auto. intros H Hl. destruct (H Hl). Qed.

Lemma ans_rev_mono log a : ans_rev log None -> ans_rev log a.
Proof. destruct log as [|it older]; cbn; auto. intros [A B]. split; auto. apply line_answered_mono; auto. Qed.

Lemma ainv_logi it w : (forall l, it = Line l -> acceptable l = true) -> ainv w -> ainv (logi it w).
Proof.
  intros H Hw. unfold ainv. cbn. split; [|apply ans_rev_mono; exact Hw].
  destruct it; cbn; auto. intro E. rewrite (H _ eq_refl) in E. discriminate.
Qed.

Lemma ainv_say r w : ainv w -> ainv (say r w).
Proof. apply ainv_logi. discriminate. Qed.

Lemma ainv_line_err l k w : ainv w -> ainv (say (Err k) (logi (Line l) w)).
Proof. intros Hw. unfold ainv. cbn. repeat split; auto. apply ans_rev_mono. exact Hw. Qed.

Lemma ainv_set_in w i : ainv w -> ainv (set_in w i).
Proof. auto. Qed.
Lemma ainv_starved w : ainv w -> ainv (logi Starved w).
Proof. apply ainv_logi. discriminate. Qed.
Ltac asolve := repeat first [apply ainv_say | apply ainv_starved]; auto.
Lemma ainv_set_fs w f : ainv w -> ainv (set_fs w f).
Proof. auto. Qed.
Lemma ainv_touch o p ok w : ainv w -> ainv (touch o p ok w).
Proof. intro H. destruct p as [q|]; [|exact H]. unfold touch. apply ainv_logi; [discriminate|exact H]. Qed.

Lemma ainv_apply_op o r w : ainv w -> ainv (snd (apply_op o r w)).
Proof. intros. destruct r as [p [fs|]]; cbn [apply_op snd]; apply ainv_touch; auto. Qed.
Lemma ainv_do_stat cfg s w : ainv w -> ainv (snd (do_stat cfg s w)).
Proof. intros. unfold do_stat. cbn [snd]. apply ainv_touch; auto. Qed.
Lemma ainv_do_open cfg s m w : ainv w -> ainv (snd (do_open cfg s m w)).
Proof.
  intros. unfold do_open.
  destruct (fs_open (w_fs w) (c_cwd cfg) s m (eff_umask cfg)) as [[p|] [[fs' ex]|]]; cbn [snd];
    try apply ainv_touch; auto.
Qed.

Lemma ainv_data_loop : forall fuel cnt p size i pend count off w, ainv w ->
  match data_loop fuel cnt p size i pend count off w with
  | DEof w' | DDone w' => ainv w'
  | _ => True
  end.
Proof.
  induction fuel as [|f IH]; intros cnt p size i pend count off w Hw; cbn [data_loop]; auto.
  destruct (i <? size)%Z.
  - destruct (cnt <? count + _); auto.
    destruct (take_n _ (w_in w)) as [[chunk rest]|]; [|auto].
    destruct (count + _ =? cnt); apply IH; auto. apply ainv_apply_op. auto.
  - destruct (count =? 0); auto. apply ainv_apply_op. auto.
Qed.

Section Answer.
Variable cfg : config.
Hypothesis Hchk : c_check cfg = true.

Lemma enter_ainv targ w k :
  ainv w -> (forall isd w1, ainv w1 -> ainv (fst (k isd w1))) -> ainv (fst (enter cfg targ w k)).
Proof.
  intros Hw Hk. unfold enter.
  destruct (c_ydir cfg).
  - pose proof (ainv_do_stat cfg (c_dest cfg) w Hw) as X.
    destruct (do_stat cfg (c_dest cfg) w) as [r w1]. cbn [snd] in X.
    destruct (negb match r with Some KDir => true | _ => false end).
    + cbn. apply ainv_say. auto.
    + pose proof (ainv_do_stat cfg targ (say Ack w1) (ainv_say _ _ X)) as Y.
      destruct (do_stat cfg targ (say Ack w1)) as [r2 w2]. auto.
  - cbn [negb].
    pose proof (ainv_do_stat cfg targ (say Ack w) (ainv_say _ _ Hw)) as Y.
    destruct (do_stat cfg targ (say Ack w)) as [r2 w2]. auto.
Qed.

Lemma handle_dir_ainv np mode ex se tv nested cont w :
  ainv w ->
  (forall w1, ainv w1 -> ainv (fst (nested w1))) ->
  (forall s w1, ainv w1 -> ainv (fst (cont s w1))) ->
  ainv (fst (handle_dir cfg np mode ex se tv nested cont w)).
Proof.
  intros Hw Hnest Hcont. unfold handle_dir.
  assert (Hgo : forall go w1, ainv w1 ->
     ainv (fst (if negb go then cont se (say (Err EBad) w1)
              else match nested w1 with
                   | (w2, RetEnd) => if se then let '(ok, w3) := do_utimes cfg np tv w2 in
                                                cont false (if ok then w3 else say (Err EUtimes) w3)
                                     else cont se w2
                   | other => other
                   end))).
  { intros go w1 H1. destruct go; cbn [negb].
    - specialize (Hnest w1 H1). destruct (nested w1) as [w2 r2]. cbn [fst] in Hnest.
      destruct r2; auto.
      destruct se.
      + pose proof (ainv_apply_op OUtimes (fs_utimes (w_fs w2) (c_cwd cfg) np (t_msec tv) (t_musec tv) (t_ausec tv)) w2 Hnest) as X.
        fold (do_utimes cfg np tv w2) in X.
        destruct (do_utimes cfg np tv w2) as [ok w3]. cbn [snd] in X.
        apply Hcont. destruct ok; auto. apply ainv_say; auto.
      + apply Hcont. auto.
    - apply Hcont. apply ainv_say. auto. }
  destruct ex as [[|]|].
  - apply Hgo. auto.
  - apply Hgo. destruct (c_preserve cfg); auto. apply ainv_apply_op; auto.
  - pose proof (ainv_apply_op OMkdir (fs_mkdir (w_fs w) (c_cwd cfg) np mode (eff_umask cfg)) w Hw) as X.
    fold (do_mkdir cfg np mode w) in X.
    destruct (do_mkdir cfg np mode w) as [go w1]. cbn [snd] in X. apply Hgo.
    destruct (go && c_preserve cfg && c_dirmode cfg); auto. apply ainv_apply_op; auto.
Qed.

Lemma handle_file_ainv np mode size se tv cont w :
  ainv w ->
  (forall s w1, ainv w1 -> ainv (fst (cont s w1))) ->
  ainv (fst (handle_file cfg np mode size se tv cont w)).
Proof.
  intros Hw Hcont. unfold handle_file.
  pose proof (ainv_do_open cfg np mode w Hw) as X.
  destruct (do_open cfg np mode w) as [[[p ex]|] w1]; cbn [fst snd] in *.
  2:{ apply Hcont. apply ainv_say. auto. }
  set (w2 := say Ack (if ex && c_preserve cfg then snd (on_fd OChmod p (fs_fchmod (w_fs w1) p mode) w1) else w1)).
  assert (H2 : ainv w2).
  { unfold w2. apply ainv_say. destruct (ex && c_preserve cfg); auto. apply ainv_apply_op; auto. }
  pose proof (ainv_data_loop (S (length (w_in w2))) (blk_cnt cfg) p size 0%Z [] 0 0 w2 H2) as HD.
  destruct (data_loop (S (length (w_in w2))) (blk_cnt cfg) p size 0 [] 0 0 w2) as [| |w3|w3]; cbn [fst]; auto.
  - asolve.
  - pose proof (ainv_apply_op OTrunc (Some p, fs_truncate (w_fs w3) p size) w3 HD) as Y.
    fold (on_fd OTrunc p (fs_truncate (w_fs w3) p size) w3) in Y.
    destruct (on_fd OTrunc p (fs_truncate (w_fs w3) p size) w3) as [tok w4]. cbn [snd] in Y.
    set (w5 := if tok then w4 else say (Err ETrunc) w4).
    assert (H5 : ainv w5) by (unfold w5; destruct tok; auto; apply ainv_say; auto).
    destruct (w_in w5) as [|r inp].
    + cbn [fst]. asolve.
    + destruct (negb (r =? 0)).
      * cbn. apply ainv_say. auto.
      * destruct (se && tok).
        -- pose proof (ainv_apply_op OUtimes (fs_utimes (w_fs (set_in w5 inp)) (c_cwd cfg) np (t_msec tv) (t_musec tv) (t_ausec tv)) (set_in w5 inp) H5) as Z.
           fold (do_utimes cfg np tv (set_in w5 inp)) in Z.
           destruct (do_utimes cfg np tv (set_in w5 inp)) as [ok w6]. cbn [snd] in Z.
           apply Hcont. destruct ok; apply ainv_say; auto.
        -- apply Hcont. destruct tok; [apply ainv_say|]; auto.
Qed.

Lemma line_of_head b0 rest : b0 <> 0 -> In 0 rest -> exists l', line_of (b0 :: rest) = b0 :: l'.
Proof.
  intros Hb Hin. unfold line_of. destruct (cstr_of_ok (b0 :: rest) (or_intror Hin)) as [s Hs].
  rewrite Hs. destruct (cstr_cons _ _ _ Hb Hs) as (s' & -> & _). eauto.
Qed.

Lemma loop_ainv : forall fuel targ isd st w,
  ainv w -> ainv (fst (loop fuel cfg targ isd st w)).
Proof.
  induction fuel as [|f IH]; intros targ isd st w Hw; [exact Hw|].
  cbn [loop].
  pose proof (read_line_ok (l_buf st) (w_in w)) as Hrl.
  destruct (read_line (l_buf st) (w_in w)) as [| |inp| |buf cp ch inp]; cbn [fst]; auto.
  - asolve.
  - asolve.
  - asolve.
  - destruct Hrl as (Hl & Hb & H2 & Hlen).
    destruct (buf_set_ok buf cp 0 Hb Hl) as (buf1 & E1 & Hl1 & _ & Hin1 & Hne1). rewrite E1.
    destruct buf1 as [|b0 rest1]; [congruence|].
    assert (Hb2 : exists rest2, (if ch =? c_nl then buf_set (b0 :: rest1) (cp - 1) 0 else Some (b0 :: rest1)) = Some (b0 :: rest2)
                                /\ (b0 <> 0 -> In 0 rest2)).
    { destruct (ch =? c_nl).
      - unfold buf_set. destruct (BUFSIZ <=? cp - 1) eqn:EB; [apply N.leb_le in EB; lia|].
        assert (Hk : N.to_nat (cp - 1) = S (N.to_nat (cp - 2))) by lia. rewrite Hk.
        cbn [list_set].
        destruct (list_set_ok rest1 (N.to_nat (cp - 2)) 0) as (r2 & E2 & _ & _ & Hin2 & _); [cbn [length] in Hl1; lia|].
        rewrite E2. cbn [option_map]. eexists; split; [reflexivity|]. intros _. exact Hin2.
      - eexists; split; [reflexivity|]. intros Hb0. cbn [In] in Hin1. destruct Hin1; congruence. }
    destruct Hb2 as (rest2 & -> & Hin2).
    set (l := line_of (b0 :: rest2)).
    set (w1 := logi (Line l) (set_in w inp)).
    assert (Hacc : acceptable l = true -> ainv w1).
    { intro Ha. apply ainv_logi; auto. intros l0 E0. inversion E0; subst. exact Ha. }
    destruct (b0 =? 1) eqn:E01.
    { apply N.eqb_eq in E01. subst b0. apply IH. apply Hacc.
      destruct (line_of_head 1 rest2 ltac:(discriminate) (Hin2 ltac:(discriminate))) as [l' El]. unfold l. rewrite El. reflexivity. }
    destruct (b0 =? 2) eqn:E02.
    { apply N.eqb_eq in E02. subst b0. cbn [fst]. apply Hacc.
      destruct (line_of_head 2 rest2 ltac:(discriminate) (Hin2 ltac:(discriminate))) as [l' El]. unfold l. rewrite El. reflexivity. }
    destruct (b0 =? c_E) eqn:E0E.
    { apply N.eqb_eq in E0E. subst b0. cbn [fst]. apply ainv_say. apply Hacc.
      destruct (line_of_head c_E rest2 ltac:(discriminate) (Hin2 ltac:(discriminate))) as [l' El]. unfold l. rewrite El. reflexivity. }
    destruct (parse_ctl (b0 :: rest2)) as [|why|c] eqn:Ep.
    + (* not reachable, but the invariant is not needed to see it *)
      exfalso. unfold parse_ctl in Ep.
      destruct (b0 =? c_T) eqn:ET.
      * apply N.eqb_eq in ET. subst b0. exact (parse_ctl_ok (c_T :: rest2) (or_intror (Hin2 ltac:(discriminate))) Ep).
      * destruct (negb (b0 =? c_C) && negb (b0 =? c_D)) eqn:EC; [discriminate|].
        assert (b0 <> 0) by (intro; subst; discriminate).
        assert (Hp := parse_ctl_ok (b0 :: rest2) (or_intror (Hin2 H))).
        apply Hp. unfold parse_ctl. rewrite ET, EC. exact Ep.
    + cbn [fst]. apply ainv_line_err. auto.
    + assert (Hb0 : b0 <> 0).
      { intro; subst. unfold parse_ctl in Ep. cbn in Ep. discriminate. }
      assert (Hcs : cstr_of (b0 :: rest2) = Some l).
      { unfold l, line_of. destruct (cstr_of_ok (b0 :: rest2) (or_intror (Hin2 Hb0))) as [s ->]. reflexivity. }
      destruct c as [tv|isdir mode size nm].
      * apply IH. apply ainv_say. apply Hacc. eapply parse_ctl_acceptable; eauto. exact I.
      * rewrite Hchk. cbn [andb].
        destruct (name_ok nm) eqn:Enm; cbn [negb].
        2:{ apply IH. apply ainv_line_err. auto. }
        assert (Hw1 : ainv w1) by (apply Hacc; eapply parse_ctl_acceptable; eauto).
        match goal with |- context [do_stat cfg ?np w1] =>
          pose proof (ainv_do_stat cfg np w1 Hw1) as X; destruct (do_stat cfg np w1) as [ex w2]; cbn [snd] in X end.
        destruct isdir.
        -- apply handle_dir_ainv; auto. intros w3 H3. apply enter_ainv; auto.
        -- apply handle_file_ainv; auto.
Qed.

Theorem sink_answered fs stream : answered (rev (w_log (fst (sink cfg fs stream)))).
Proof.
  assert (H : ainv (fst (sink cfg fs stream))).
  { unfold sink. apply enter_ainv; [exact I|]. intros. apply loop_ainv. auto. }
  rewrite <- (app_nil_r (rev _)). eapply ans_rev_answered; eauto. exact I.
Qed.

End Answer.
