(* Forward facts about the file-system calls on a fresh name inside an existing directory:
   what they resolve to and what they leave behind. *)
From PV Require Import Pcp.FsModel Pcp.FsFacts Pcp.FsAlgebra.
Local Open Scope N_scope.

(* a name the sender can produce for an entry of a directory *)
Definition good_name (nm : bytes) : Prop :=
  nm <> [] /\ ~ In c_slash nm /\ ~ In c_nl nm /\ ~ In 0 nm /\ nm <> dot /\ nm <> dotdot /\ (length nm <= NAME_MAX)%nat.

Lemma wstart_same cwd targ s x : targ <> [] -> (length (targ ++ x) < PATH_MAX)%nat ->
  wstart cwd targ = Some s -> wstart cwd (targ ++ x) = Some s.
Proof.
  destruct targ as [|c r]; [congruence|]. intros _ Hlen. cbn [app wstart] in *.
  destruct (PATH_MAX <=? length (c :: r))%nat eqn:E1; [discriminate|].
  destruct (PATH_MAX <=? length (c :: r ++ x))%nat eqn:E2; [apply Nat.leb_le in E2; cbn [length] in *; lia|auto].
Qed.

Lemma resolve_not_nil root cwd s p t : resolve root cwd s = ROk p t -> s <> [].
Proof. intros H ->. rewrite resolve_nil in H. discriminate. Qed.

Lemma resolve_entry root cwd targ nm q t :
  resolve root cwd targ = ROk q t -> is_dir root q = true -> good_name nm ->
  (length (targ ++ c_slash :: nm) < PATH_MAX)%nat ->
  resolve root cwd (targ ++ c_slash :: nm) = ROk (q ++ [nm]) false.
Proof.
  intros Hr Hd (Hne & Hns & _ & _ & Hdot & Hdd & Hlen) Hpm.
  pose proof (resolve_not_nil _ _ _ _ _ Hr) as Htn.
  unfold resolve in *.
  rewrite split_all_cat, (split_all_plain _ nm Hns), fold_left_app. cbn [fold_left].
  destruct (wstart cwd targ) as [s0|] eqn:Es0.
  2:{ rewrite fold_wstep_none in Hr. discriminate. }
  rewrite (wstart_same _ _ _ _ Htn Hpm Es0).
  unfold name, bytes in *.
  match goal with |- context [wstep root ?X nm] => destruct X as [s|] eqn:Ef end;
    [|exfalso; try rewrite Ef in Hr; discriminate Hr].
  try rewrite Ef in Hr.
  cbn [wfinish] in Hr.
  destruct nm as [|x nm']; [congruence|]. cbn [wstep].
  assert (Hdesc : descend root s = Some q).
  { unfold descend. destruct (ws_pend s) as [d|]; inversion Hr; subst; [now rewrite Hd|reflexivity]. }
  rewrite Hdesc.
  replace (beq (x :: nm') dot) with false by (symmetry; now apply beq_neq).
  replace (beq (x :: nm') dotdot) with false by (symmetry; now apply beq_neq).
  replace (NAME_MAX <? length (x :: nm'))%nat with false by (symmetry; apply Nat.ltb_ge; exact Hlen).
  reflexivity.
Qed.

Lemma fs_stat_fresh root cwd s p t : resolve root cwd s = ROk p t -> lookup root p = None -> fs_stat root cwd s = None.
Proof. intros Hr Hl. unfold fs_stat. now rewrite Hr, Hl. Qed.

Lemma fs_stat_dir root cwd s p t m mt e : resolve root cwd s = ROk p t -> lookup root p = Some (Dir m mt e) ->
  fs_stat root cwd s = Some (p, KDir).
Proof. intros Hr Hl. unfold fs_stat. now rewrite Hr, Hl. Qed.

Lemma parent_snoc (q : path) c : parent (q ++ [c]) = q.
Proof. unfold parent. apply removelast_last. Qed.

Definition mkdir_mode (mode um pm : N) : N :=
  N.lor (N.land (N.land mode 1023) (N.lxor 4095 (N.land um 4095))) (N.land pm S_ISGID).

Lemma fs_mkdir_fresh root cwd s q c t mode um pm pt pe :
  resolve root cwd s = ROk (q ++ [c]) t -> lookup root q = Some (Dir pm pt pe) -> assoc c pe = None ->
  exists root', fs_mkdir root cwd s mode um = (Some (q ++ [c]), Some root') /\
                set_at root (q ++ [c]) (Dir (mkdir_mode mode um pm) None []) = Some root'.
Proof.
  intros Hr Hq Ha. unfold fs_mkdir. rewrite Hr.
  assert (Hl : lookup root (q ++ [c]) = None) by (rewrite lookup_app, Hq; cbn [lookup]; now rewrite Ha).
  assert (Hs : exists root', set_at root (q ++ [c]) (Dir (mkdir_mode mode um pm) None []) = Some root').
  { rewrite (set_at_new_entry _ _ _ _ _ _ _ Hq Ha). eapply set_at_exists; eauto. }
  destruct Hs as [root' Hs]. exists root'. split; [|exact Hs].
  pose proof (parent_snoc q c) as Hp.
  remember (q ++ [c]) as p eqn:Ep. destruct p as [|x l]; [destruct q; discriminate|].
  rewrite Hl, Hp, Hq. unfold mkdir_mode in Hs. rewrite Hs. reflexivity.
Qed.

Definition create_mode (mode um : N) : N := N.land mode (N.lxor 4095 (N.land um 4095)).

Lemma fs_open_fresh root cwd s q c mode um pm pt pe :
  resolve root cwd s = ROk (q ++ [c]) false -> lookup root q = Some (Dir pm pt pe) -> assoc c pe = None ->
  exists root', fs_open root cwd s mode um = (Some (q ++ [c]), Some (root', false)) /\
                set_at root (q ++ [c]) (File (create_mode mode um) None []) = Some root'.
Proof.
  intros Hr Hq Ha. unfold fs_open. rewrite Hr.
  assert (Hl : lookup root (q ++ [c]) = None) by (rewrite lookup_app, Hq; cbn [lookup]; now rewrite Ha).
  rewrite Hl.
  assert (Hs : exists root', set_at root (q ++ [c]) (File (create_mode mode um) None []) = Some root').
  { rewrite (set_at_new_entry _ _ _ _ _ _ _ Hq Ha). eapply set_at_exists; eauto. }
  destruct Hs as [root' Hs]. exists root'. split; [|exact Hs].
  remember (q ++ [c]) as p eqn:Ep. destruct p as [|x l]; [destruct q; discriminate|].
  unfold create_mode in Hs. rewrite Hs. reflexivity.
Qed.

Lemma fs_truncate_file root p m t d size :
  lookup root p = Some (File m t d) -> (0 <= size)%Z ->
  exists root', fs_truncate root p size = Some root' /\ set_at root p (File m None (resize d (Z.to_nat size))) = Some root'.
Proof.
  intros Hl Hs. unfold fs_truncate. destruct (size <? 0)%Z eqn:E; [apply Z.ltb_lt in E; lia|].
  rewrite Hl. destruct (set_at_exists p root _ (File m None (resize d (Z.to_nat size))) Hl) as [r' Hr]. eauto.
Qed.

Lemma fs_utimes_node root cwd s p t n ms :
  resolve root cwd s = ROk p t -> lookup root p = Some n -> (t = true -> is_dir root p = true) ->
  exists root', fs_utimes root cwd s ms 0 0 = (Some p, Some root') /\ set_at root p (set_mtime n (Some ms)) = Some root'.
Proof.
  intros Hr Hl Ht. unfold fs_utimes, fs_stat. rewrite Hr, Hl.
  destruct (set_at_exists p root _ (set_mtime n (Some ms)) Hl) as [r' Hs].
  destruct n as [m mt d|m mt e].
  - destruct t.
    + specialize (Ht eq_refl). unfold is_dir in Ht. rewrite Hl in Ht. discriminate.
    + rewrite Hl. cbn [time_ok]. change (time_ok 0 && time_ok 0) with true. cbv iota. rewrite Hs. eauto.
  - rewrite Hl. change (time_ok 0 && time_ok 0) with true. cbv iota. rewrite Hs. eauto.
Qed.

Lemma fs_chmod_dir root cwd s p t m mt e mode :
  resolve root cwd s = ROk p t -> lookup root p = Some (Dir m mt e) ->
  exists root', fs_chmod root cwd s mode = (Some p, Some root') /\ set_at root p (Dir mode mt e) = Some root'.
Proof.
  intros Hr Hl. unfold fs_chmod, fs_stat. rewrite Hr, Hl, Hl. cbn [set_mode].
  destruct (set_at_exists p root _ (Dir mode mt e) Hl) as [r' Hs]. rewrite Hs. eauto.
Qed.

Lemma resize_exact d old : resize (d ++ old) (length d) = d.
Proof. unfold resize. rewrite firstn_app, firstn_all, Nat.sub_diag, app_length. cbn [firstn]. replace (length d - (length d + length old))%nat with 0%nat by lia. cbn. now rewrite !app_nil_r. Qed.
