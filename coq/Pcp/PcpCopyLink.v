(* The function the check runs (PcpClient.copy / run_copy) is, on the inputs of C11_roundtrip, the
   receiver's run on the encoded forest. *)
From PV Require Import Pcp.FsModel Pcp.PcpSink Pcp.PcpClient Pcp.FsFacts Pcp.FsForward
  Pcp.PcpEncode Pcp.PcpRound Pcp.PcpCopyFacts.
Local Open Scope N_scope.

(* the sender never waits for more than three answers per list entry *)
Lemma n_acks_bound pres : forall n prefix, (n_acks pres n <= 3 * length (PF prefix false false :: rexpand prefix n))%nat.
Proof.
  induction n as [m t d|m t ents IH] using node_ind2; intro prefix.
  - cbn [n_acks rexpand length]. destruct pres; lia.
  - rewrite n_acks_dir, rexpand_dir. cbn [length]. rewrite app_length. cbn [length].
    assert (H : (n_acks_list pres ents <= 3 * length (rexpand_list prefix ents))%nat).
    { induction ents as [|[k v] r IHr]; [cbn; lia|].
      inversion IH; subst. rewrite n_acks_list_cons. cbn [rexpand_list length]. rewrite app_length.
      specialize (H1 (prefix ++ [k])). cbn [snd length] in H1. specialize (IHr H2). lia. }
    destruct pres; lia.
Qed.

Lemma n_acks_list_bound pres c : forall (l : list src),
  (n_acks_list pres (map (sent_entry c) l) <= 3 * length (top_files l))%nat.
Proof.
  induction l as [|[[pre k] n] r IH]; [cbn; lia|].
  cbn [map sent_entry top_files length]. rewrite n_acks_list_cons, app_length.
  pose proof (n_acks_bound pres n (pre ++ [k])) as H. cbn [length] in H. lia.
Qed.

Theorem copy_is_sink_encode cfg c fs (l : list src) dp t dm dt de :
  cc_preserve c = c_preserve cfg ->
  (forall pre k n, In (pre, k, n) l ->
     lookup (cc_fs c) (cc_cwd c ++ pre ++ [k]) = Some n /\ (pre <> [] \/ beq k sentinel = false)) ->
  wf_src_list cfg (map (sent_entry c) l) -> names_distinct (map (sent_entry c) l) ->
  fits_list (length (c_dest cfg)) (map (sent_entry c) l) ->
  (forall k v, In (k, v) (map (sent_entry c) l) -> assoc k de = None) ->
  resolve fs (c_cwd cfg) (c_dest cfg) = ROk dp t -> lookup fs dp = Some (Dir dm dt de) ->
  copy cfg fs c (top_files l) = sink cfg fs (encode_list (c_preserve cfg) (map (sent_entry c) l)).
Proof.
  intros Hp Hsrc Hwf Hd Hfit Hfresh Hr Hl.
  assert (Hcl : forall rs k, (1 + n_acks_list (cc_preserve c) (map (sent_entry c) l) <= k)%nat ->
            client c (top_files l) (repeat Ack k ++ rs) = encode_list (cc_preserve c) (map (sent_entry c) l)).
  { intros rs k Hk.
    replace k with ((1 + n_acks_list (cc_preserve c) (map (sent_entry c) l)) + (k - (1 + n_acks_list (cc_preserve c) (map (sent_entry c) l))))%nat by lia.
    rewrite repeat_app, <- app_assoc. apply client_all_acks.
    intros pre k0 n Hin'. destruct (Hsrc pre k0 n Hin') as [A B]. repeat split; auto.
    apply (wf_src_names cfg).
    assert (Hi : In (k0 ++ suffix_of c true, n) (map (sent_entry c) l)) by (change (k0 ++ suffix_of c true, n) with (sent_entry c (pre, k0, n)); now apply in_map).
    clear -Hwf Hi. induction (map (sent_entry c) l) as [|[k' v'] r IH]; [destruct Hi|].
    cbn [wf_src_list] in Hwf. destruct Hwf as (_ & Hv & Hr). destruct Hi as [E|Hi]; [inversion E; subst; exact Hv|auto]. }
  unfold copy.
  pose proof (n_acks_list_bound (cc_preserve c) c l) as Hb.
  assert (Hs1 : client c (top_files l) (repeat Ack (n_answers (top_files l))) = encode_list (c_preserve cfg) (map (sent_entry c) l)).
  { rewrite <- (app_nil_r (repeat Ack _)), Hcl, Hp; [reflexivity|]. unfold n_answers. lia. }
  rewrite Hs1.
  destruct (sink_encode cfg fs (map (sent_entry c) l) dp t dm dt de Hr Hl Hwf Hd Hfit Hfresh)
    as (w' & fs' & Es & Ef & Hset & Hrep & Hseen & Hin).
  rewrite Es. cbn [fst]. rewrite Hseen, <- Hp.
  rewrite <- (app_nil_r (repeat Ack _)), Hcl by lia. rewrite beq_refl. reflexivity.
Qed.
