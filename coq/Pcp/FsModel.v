(* Abstract file system for the pcp models (DESIGN 5.5).

   A tree of regular files and directories, addressed by canonical paths (lists of
   component names from the root of the tree).  Path STRINGS, as the C code hands them to
   the kernel, are resolved here the way Linux resolves them: '/' separates components,
   empty components and "." stay, ".." goes to the parent, every intermediate component
   must be an existing directory, one or more trailing slashes demand a directory.
   There are no symbolic links in this model (domain predicate of C12: the destination
   tree is free of them; the copy protocol cannot create one).
   No permission checks: the receiver is taken to have access (root, or owner with rwx).
   mtime = None stands for "whatever the clock said" (set by creation / write), Some t for
   a time set by utimes. *)
From PV Require Export Base.Bytes.
Local Open Scope N_scope.

Definition name := bytes.
Definition path := list name.

Inductive node :=
| File (mode : N) (mtime : option Z) (data : bytes)
| Dir (mode : N) (mtime : option Z) (ents : list (name * node)).

Definition NAME_MAX : nat := 255.
Definition PATH_MAX : nat := 4096.

(* ---- directory entries: association list, first match, new entries appended ---- *)
Fixpoint assoc (k : name) (l : list (name * node)) : option node :=
  match l with
  | [] => None
  | (k', v) :: r => if beq k k' then Some v else assoc k r
  end.

Fixpoint assoc_put (k : name) (v : node) (l : list (name * node)) : list (name * node) :=
  match l with
  | [] => [(k, v)]
  | (k', v') :: r => if beq k k' then (k, v) :: r else (k', v') :: assoc_put k v r
  end.

(* ---- canonical-path access ---- *)
Fixpoint lookup (n : node) (p : path) : option node :=
  match p with
  | [] => Some n
  | c :: p' => match n with
               | Dir _ _ ents => match assoc c ents with
                                 | Some ch => lookup ch p'
                                 | None => None
                                 end
               | File _ _ _ => None
               end
  end.

(* replace the node at p, or add it as a new entry of its (existing) parent directory; adding an
   entry modifies the parent directory, whose mtime becomes "now" *)
Fixpoint set_at (n : node) (p : path) (new : node) : option node :=
  match p with
  | [] => Some new
  | c :: p' =>
    match n with
    | Dir m t ents =>
      match p' with
      | [] => Some (Dir m (match assoc c ents with Some _ => t | None => None end) (assoc_put c new ents))
      | _ :: _ => match assoc c ents with
                  | Some ch => match set_at ch p' new with
                               | Some ch' => Some (Dir m t (assoc_put c ch' ents))
                               | None => None
                               end
                  | None => None
                  end
      end
    | File _ _ _ => None
    end
  end.

Definition is_dir (root : node) (p : path) : bool :=
  match lookup root p with Some (Dir _ _ _) => true | _ => false end.

Definition parent (p : path) : path := removelast p.

(* ---- resolution of a path string ---- *)
(* walking state: cur = directory reached so far (exists), pend = a last component that has
   not been required to exist yet, trail = that component was followed by a slash *)
Record wstate := mkws { ws_cur : path; ws_pend : option name; ws_trail : bool }.

Definition dot : bytes := [46].
Definition dotdot : bytes := [46; 46].

(* make the pending component the current directory: it must be an existing directory *)
Definition descend (root : node) (s : wstate) : option path :=
  match ws_pend s with
  | None => Some (ws_cur s)
  | Some d => if is_dir root (ws_cur s ++ [d]) then Some (ws_cur s ++ [d]) else None
  end.

Definition wstep (root : node) (st : option wstate) (c : name) : option wstate :=
  match st with
  | None => None
  | Some s =>
    match c with
    | [] => Some (mkws (ws_cur s) (ws_pend s) true)
    | _ =>
      match descend root s with
      | None => None
      | Some cur =>
        if beq c dot then Some (mkws cur None true)
        else if beq c dotdot then Some (mkws (parent cur) None true)
        else if (NAME_MAX <? length c)%nat then None
        else Some (mkws cur (Some c) false)
      end
    end
  end.

Inductive rres := RErr | ROk (p : path) (trail : bool).

Definition wfinish (st : option wstate) : rres :=
  match st with
  | None => RErr
  | Some s => match ws_pend s with
              | Some d => ROk (ws_cur s ++ [d]) (ws_trail s)
              | None => ROk (ws_cur s) true
              end
  end.

Definition wstart (cwd : path) (s : bytes) : option wstate :=
  match s with
  | [] => None                                            (* ENOENT *)
  | c :: _ => if (PATH_MAX <=? length s)%nat then None    (* ENAMETOOLONG *)
              else Some (mkws (if c =? c_slash then [] else cwd) None true)
  end.

Definition resolve (root : node) (cwd : path) (s : bytes) : rres :=
  wfinish (fold_left (wstep root) (split_all c_slash s) (wstart cwd s)).

(* ---- the system calls the copy code uses ---- *)
Inductive kind := KFile | KDir.

Definition node_kind (n : node) : kind := match n with File _ _ _ => KFile | Dir _ _ _ => KDir end.

(* stat(2): canonical path and kind, None on any error *)
Definition fs_stat (root : node) (cwd : path) (s : bytes) : option (path * kind) :=
  match resolve root cwd s with
  | RErr => None
  | ROk p trail =>
    match lookup root p with
    | Some (Dir _ _ _) => Some (p, KDir)
    | Some (File _ _ _) => if trail then None else Some (p, KFile)
    | None => None
    end
  end.

Definition set_mode (n : node) (m : N) : node :=
  match n with File _ t d => File m t d | Dir _ t e => Dir m t e end.
Definition set_mtime (n : node) (t : option Z) : node :=
  match n with File m _ d => File m t d | Dir m _ e => Dir m t e end.
Definition node_mode (n : node) : N := match n with File m _ _ => m | Dir m _ _ => m end.

(* the result of a mutating call: the path it resolved to (None: resolution failed, nothing was
   looked at beyond the walk) and the new tree (None: the call failed, tree unchanged) *)
Definition opres := (option path * option node)%type.

Definition S_ISGID : N := 1024.

(* mkdir(2): only the rwx and sticky bits of the mode are used, minus the umask; the set-group-id
   bit is inherited from the parent *)
Definition fs_mkdir (root : node) (cwd : path) (s : bytes) (mode umask : N) : opres :=
  match resolve root cwd s with
  | RErr => (None, None)
  | ROk p _ =>
    (Some p,
     match p, lookup root p with
     | _ :: _, None =>
       let pg := match lookup root (parent p) with Some (Dir pm _ _) => N.land pm S_ISGID | _ => 0 end in
       set_at root p (Dir (N.lor (N.land (N.land mode 1023) (N.lxor 4095 (N.land umask 4095))) pg) None [])
     | _, _ => None
     end)
  end.

Definition fs_chmod (root : node) (cwd : path) (s : bytes) (mode : N) : opres :=
  match fs_stat root cwd s with
  | None => (match resolve root cwd s with ROk p _ => Some p | RErr => None end, None)
  | Some (p, _) =>
    (Some p, match lookup root p with Some n => set_at root p (set_mode n mode) | None => None end)
  end.

Definition time_ok (usec : Z) : bool := ((0 <=? usec) && (usec <? 1000000))%Z.

(* utimes(2) with explicit times: EINVAL when a microsecond field is out of range *)
Definition fs_utimes (root : node) (cwd : path) (s : bytes) (msec musec ausec : Z) : opres :=
  match fs_stat root cwd s with
  | None => (match resolve root cwd s with ROk p _ => Some p | RErr => None end, None)
  | Some (p, _) =>
    (Some p,
     if time_ok musec && time_ok ausec
     then match lookup root p with Some n => set_at root p (set_mtime n (Some msec)) | None => None end
     else None)
  end.

(* open(path, O_WRONLY|O_CREAT, mode): result = canonical path of the open file, whether it existed *)
Definition fs_open (root : node) (cwd : path) (s : bytes) (mode umask : N)
  : option path * option (node * bool) :=
  match resolve root cwd s with
  | RErr => (None, None)
  | ROk p trail =>
    (Some p,
     match lookup root p with
     | Some (Dir _ _ _) => None                                   (* EISDIR *)
     | Some (File _ _ _) => if trail then None else Some (root, true)
     | None =>
       if trail then None
       else match p with
            | [] => None
            | _ :: _ => match set_at root p (File (N.land mode (N.lxor 4095 (N.land umask 4095))) None []) with
                        | Some r => Some (r, false)
                        | None => None
                        end
            end
     end)
  end.

(* write(fd) at an offset of an open file: overwrite, extend with the data (zero fill up to off) *)
Definition overwrite (old : bytes) (off : nat) (data : bytes) : bytes :=
  firstn off old ++ repeat 0 (off - length old) ++ data ++ skipn (off + length data) old.

Definition fs_write (root : node) (p : path) (off : N) (data : bytes) : option node :=
  match lookup root p with
  | Some (File m _ d) => set_at root p (File m None (overwrite d (N.to_nat off) data))
  | _ => None
  end.

Definition resize (old : bytes) (n : nat) : bytes := firstn n old ++ repeat 0 (n - length old).

(* ftruncate(fd, size): EINVAL for a negative size *)
Definition fs_truncate (root : node) (p : path) (size : Z) : option node :=
  if (size <? 0)%Z then None
  else match lookup root p with
       | Some (File m _ d) => set_at root p (File m None (resize d (Z.to_nat size)))
       | _ => None
       end.

Definition fs_fchmod (root : node) (p : path) (mode : N) : option node :=
  match lookup root p with
  | Some n => set_at root p (set_mode n mode)
  | None => None
  end.
