(* C12_confined: with the name check, every file-system call of the receiver resolves to a path
   beneath (or equal to) the canonical path of the destination it was started with. *)
From PV Require Import Pcp.FsModel Pcp.PcpSink Pcp.FsFacts Pcp.PcpSpec Pcp.PcpSinkFacts.
Local Open Scope N_scope.

Section Confined.
Variable cfg : config.
Variable fs0 : node.
Variable dp : path.
Hypothesis Hchk : c_check cfg = true.
Hypothesis Hcwd : canon (c_cwd cfg).

(* beneath the destination, and a canonical path (no "..", ".", empty component or '/') *)
Definition okp (p : path) : Prop := under dp p /\ canon p.

Definition item_ok (it : item) : Prop :=
  match it with Touch _ p _ => okp p | _ => True end.

Definition winv (w : world) : Prop := ext fs0 (w_fs w) /\ Forall item_ok (w_log w).

(* whatever the string resolves to, now or later, lies under the destination *)
Definition P (s : bytes) : Prop :=
  forall fs, ext fs0 fs -> forall q t, resolve fs (c_cwd cfg) s = ROk q t -> under dp q.

Lemma winv_logi it w : item_ok it -> winv w -> winv (logi it w).
Proof. intros H [A B]. split; cbn; auto. Qed.
Lemma winv_say r w : winv w -> winv (say r w).
Proof. apply winv_logi. exact I. Qed.
Lemma winv_set_in w i : winv w -> winv (set_in w i).
Proof. intros [A B]. split; auto. Qed.
Lemma winv_starved w : winv w -> winv (logi Starved w).
Proof. apply winv_logi. exact I. Qed.
Ltac wsolve := repeat first [apply winv_say | apply winv_starved | apply winv_set_in]; auto.
Lemma winv_set_fs w fs : ext (w_fs w) fs -> winv w -> winv (set_fs w fs).
Proof. intros H [A B]. split; cbn; auto. eapply ext_trans; eauto. Qed.

Lemma winv_touch o p ok w : (forall q, p = Some q -> okp q) -> winv w -> winv (touch o p ok w).
Proof. intros H Hw. destruct p as [q|]; cbn; auto. apply winv_logi; auto. cbn. auto. Qed.

Lemma P_rpath s fs q : P s -> ext fs0 fs -> rpath fs (c_cwd cfg) s = Some q -> okp q.
Proof.
  unfold rpath. intros HP He. destruct (resolve fs (c_cwd cfg) s) as [|p t] eqn:E; [discriminate|].
  intro H; inversion H; subst. split; [eapply HP; eauto|eapply resolve_canon; eauto].
Qed.

Lemma do_stat_inv s w : P s -> winv w -> winv (snd (do_stat cfg s w)).
Proof.
  intros HP Hw. unfold do_stat. cbn [snd]. apply winv_touch; auto.
  intros q Hq. eapply P_rpath; eauto. apply Hw.
Qed.

Lemma fs_mkdir_path root cwd s m u : fst (fs_mkdir root cwd s m u) = rpath root cwd s.
Proof. unfold fs_mkdir, rpath. destruct (resolve root cwd s); reflexivity. Qed.
Lemma fs_chmod_path root cwd s m : fst (fs_chmod root cwd s m) = rpath root cwd s.
Proof.
  unfold fs_chmod, rpath, fs_stat. destruct (resolve root cwd s) as [|p t]; [reflexivity|].
  destruct (lookup root p) as [[? ? ?|? ? ?]|]; try reflexivity. destruct t; reflexivity.
Qed.
Lemma fs_utimes_path root cwd s a b c : fst (fs_utimes root cwd s a b c) = rpath root cwd s.
Proof.
  unfold fs_utimes, rpath, fs_stat. destruct (resolve root cwd s) as [|p t]; [reflexivity|].
  destruct (lookup root p) as [[? ? ?|? ? ?]|]; try reflexivity. destruct t; reflexivity.
Qed.
Lemma fs_open_path root cwd s m u : fst (fs_open root cwd s m u) = rpath root cwd s.
Proof. unfold fs_open, rpath. destruct (resolve root cwd s); reflexivity. Qed.

Lemma apply_op_inv o r w :
  (forall q, fst r = Some q -> okp q) ->
  (forall fs', snd r = Some fs' -> ext (w_fs w) fs') ->
  winv w -> winv (snd (apply_op o r w)).
Proof.
  intros Hp Hf Hw. destruct r as [p [fs'|]]; cbn [apply_op snd fst] in *.
  - apply winv_touch; auto. apply winv_set_fs; auto.
  - apply winv_touch; auto.
Qed.

Lemma do_mkdir_inv s m w : P s -> winv w -> winv (snd (do_mkdir cfg s m w)).
Proof.
  intros HP Hw. unfold do_mkdir. apply apply_op_inv; auto.
  - rewrite fs_mkdir_path. intros q Hq. eapply P_rpath; eauto. apply Hw.
  - intros fs' H. destruct (fs_mkdir (w_fs w) (c_cwd cfg) s m (eff_umask cfg)) as [p r] eqn:E. cbn in H. subst r.
    eapply fs_mkdir_ext; eauto.
Qed.

Lemma do_chmod_inv s m w : P s -> winv w -> winv (snd (do_chmod cfg s m w)).
Proof.
  intros HP Hw. unfold do_chmod. apply apply_op_inv; auto.
  - rewrite fs_chmod_path. intros q Hq. eapply P_rpath; eauto. apply Hw.
  - intros fs' H. destruct (fs_chmod (w_fs w) (c_cwd cfg) s m) as [p r] eqn:E. cbn in H. subst r.
    eapply fs_chmod_ext; eauto.
Qed.

Lemma do_utimes_inv s tv w : P s -> winv w -> winv (snd (do_utimes cfg s tv w)).
Proof.
  intros HP Hw. unfold do_utimes. apply apply_op_inv; auto.
  - rewrite fs_utimes_path. intros q Hq. eapply P_rpath; eauto. apply Hw.
  - intros fs' H. destruct (fs_utimes (w_fs w) (c_cwd cfg) s (t_msec tv) (t_musec tv) (t_ausec tv)) as [p r] eqn:E. cbn in H. subst r.
    eapply fs_utimes_ext; eauto.
Qed.

Lemma do_open_inv s m w : P s -> winv w ->
  winv (snd (do_open cfg s m w)) /\
  (forall p ex, fst (do_open cfg s m w) = Some (p, ex) -> okp p).
Proof.
  intros HP Hw. unfold do_open.
  pose proof (fs_open_path (w_fs w) (c_cwd cfg) s m (eff_umask cfg)) as Hpath.
  destruct (fs_open (w_fs w) (c_cwd cfg) s m (eff_umask cfg)) as [[p|] [[fs' ex]|]] eqn:E; cbn [fst snd] in *.
  - assert (okp p) by (eapply P_rpath; eauto; apply Hw).
    split.
    + apply winv_touch; [intros q Hq; inversion Hq; subst; auto|].
      apply winv_set_fs; auto; eapply fs_open_ext; eauto.
    + intros p' ex' H'. inversion H'; subst; auto.
  - split; [|discriminate]. apply winv_touch; auto. intros q Hq; inversion Hq; subst. eapply P_rpath; eauto. apply Hw.
  - split; [|discriminate]. auto.
  - split; [|discriminate]. auto.
Qed.

Lemma on_fd_inv o p r w :
  okp p -> (forall fs', r = Some fs' -> ext (w_fs w) fs') -> winv w -> winv (snd (on_fd o p r w)).
Proof.
  intros Hp Hr Hw. unfold on_fd. apply apply_op_inv; auto.
  cbn. intros q Hq; inversion Hq; subst; auto.
Qed.

Lemma write_inv p off data w : okp p -> winv w -> winv (snd (on_fd OWrite p (fs_write (w_fs w) p off data) w)).
Proof. intros. apply on_fd_inv; auto. intros fs' H'. eapply fs_write_ext; eauto. Qed.

Lemma data_loop_inv : forall fuel cnt p size i pend count off w,
  okp p -> winv w ->
  match data_loop fuel cnt p size i pend count off w with
  | DEof w' | DDone w' => winv w'
  | _ => True
  end.
Proof.
  induction fuel as [|f IH]; intros cnt p size i pend count off w Hp Hw; cbn [data_loop]; auto.
  destruct (i <? size)%Z.
  - destruct (cnt <? count + _); auto.
    destruct (take_n _ (w_in w)) as [[chunk rest]|]; [|apply winv_set_in; auto].
    destruct (count + _ =? cnt).
    + apply IH; auto; apply write_inv; auto; apply winv_set_in; auto.
    + apply IH; auto; apply winv_set_in; auto.
  - destruct (count =? 0); auto. apply write_inv; auto.
Qed.

(* ---- names ---- *)
Lemma name_ok_plain nm : name_ok nm = true -> plain_name nm.
Proof.
  unfold name_ok, plain_name. intro H. apply andb_true_iff in H as [A B].
  split.
  - intro Hin. apply mem_In in Hin. rewrite Hin in A. discriminate.
  - intro E. subst. cbn in B. discriminate.
Qed.

Lemma P_join targ nm : P targ -> targ <> [] -> name_ok nm = true -> P (join_name targ nm).
Proof.
  intros HP Hne Hok fs He q t Hr.
  unfold join_name in Hr. destruct targ as [|c r]; [congruence|].
  change ((c :: r) ++ [c_slash] ++ nm) with ((c :: r) ++ c_slash :: nm) in Hr.
  destruct (resolve_join _ _ _ _ _ _ Hne (name_ok_plain _ Hok) Hr) as (q0 & t0 & Hq0 & [->| ->]).
  - eapply HP; eauto.
  - apply under_app. eapply HP; eauto.
Qed.

Lemma snprintf_fits cs targ nm :
  target_path true (new_cursize true cs targ nm) targ nm = join_name targ nm.
Proof.
  unfold target_path, snprintf_trunc, new_cursize. cbn [andb].
  apply firstn_all2. pose proof name_slack_ge2.
  assert (length (join_name targ nm) <= length targ + 1 + length nm)%nat.
  { unfold join_name. rewrite !app_length. destruct targ; cbn; lia. }
  unfold nlen. destruct (cs <? _) eqn:E; [|apply N.ltb_ge in E]; lia.
Qed.

Lemma P_target targ isd cs nm :
  P targ -> (isd = true -> targ <> []) -> name_ok nm = true ->
  P (target_path isd (new_cursize isd cs targ nm) targ nm).
Proof.
  intros HP Hne Hok. destruct isd.
  - rewrite snprintf_fits. apply P_join; auto.
  - exact HP.
Qed.

Lemma stat_dir_nonempty s w : fst (do_stat cfg s w) = Some KDir -> s <> [].
Proof.
  unfold do_stat, fs_stat. cbn [fst]. intros H ->. rewrite resolve_nil in H. discriminate.
Qed.

(* ---- the control flow ---- *)
Hypothesis Pdest : P (c_dest cfg).

Lemma enter_inv targ w k :
  P targ -> winv w ->
  (forall isd w1, winv w1 -> (isd = true -> targ <> []) -> winv (fst (k isd w1))) ->
  winv (fst (enter cfg targ w k)).
Proof.
  intros HP Hw Hk. unfold enter.
  assert (Hgo : forall w1, winv w1 ->
     winv (fst (let '(r, w2) := do_stat cfg targ (say Ack w1) in k match r with Some KDir => true | _ => false end w2))).
  { intros w1 H1. pose proof (do_stat_inv targ (say Ack w1) HP (winv_say _ _ H1)) as X.
    pose proof (stat_dir_nonempty targ (say Ack w1)) as Y.
    destruct (do_stat cfg targ (say Ack w1)) as [r w2]. cbn [fst snd] in *.
    apply Hk; auto. intros E. apply Y. destruct r as [[|]|]; try discriminate. reflexivity. }
  destruct (c_ydir cfg).
  - pose proof (do_stat_inv (c_dest cfg) w Pdest Hw) as X.
    destruct (do_stat cfg (c_dest cfg) w) as [r w1]. cbn [snd] in X.
    destruct (negb match r with Some KDir => true | _ => false end).
    + cbn. apply winv_say. auto.
    + apply Hgo. auto.
  - cbn [negb]. apply Hgo. auto.
Qed.

Lemma handle_dir_inv np mode ex se tv nested cont w :
  P np -> winv w ->
  (forall w1, winv w1 -> winv (fst (nested w1))) ->
  (forall s w1, winv w1 -> winv (fst (cont s w1))) ->
  winv (fst (handle_dir cfg np mode ex se tv nested cont w)).
Proof.
  intros HP Hw Hnest Hcont. unfold handle_dir.
  assert (Hgo : forall go w1, winv w1 ->
     winv (fst (if negb go then cont se (say (Err EBad) w1)
              else match nested w1 with
                   | (w2, RetEnd) => if se then let '(ok, w3) := do_utimes cfg np tv w2 in
                                                cont false (if ok then w3 else say (Err EUtimes) w3)
                                     else cont se w2
                   | other => other
                   end))).
  { intros go w1 H1. destruct go; cbn [negb].
    - specialize (Hnest w1 H1). destruct (nested w1) as [w2 r2]. cbn [fst] in Hnest.
      destruct r2; auto.
      destruct se.
      + pose proof (do_utimes_inv np tv w2 HP Hnest) as X. destruct (do_utimes cfg np tv w2) as [ok w3]. cbn [snd] in X.
        apply Hcont. destruct ok; auto. apply winv_say; auto.
      + apply Hcont. auto.
    - apply Hcont. apply winv_say. auto. }
  destruct ex as [[|]|].
  - apply Hgo. auto.
  - apply Hgo. destruct (c_preserve cfg); auto. apply do_chmod_inv; auto.
  - pose proof (do_mkdir_inv np mode w HP Hw) as X. destruct (do_mkdir cfg np mode w) as [go w1]. cbn [snd] in X.
    apply Hgo. destruct (go && c_preserve cfg && c_dirmode cfg); auto. apply do_chmod_inv; auto.
Qed.

Lemma handle_file_inv np mode size se tv cont w :
  P np -> winv w ->
  (forall s w1, winv w1 -> winv (fst (cont s w1))) ->
  winv (fst (handle_file cfg np mode size se tv cont w)).
Proof.
  intros HP Hw Hcont. unfold handle_file.
  pose proof (do_open_inv np mode w HP Hw) as [X Xp].
  destruct (do_open cfg np mode w) as [[[p ex]|] w1]; cbn [fst snd] in *.
  2:{ apply Hcont. apply winv_say. auto. }
  assert (Hp : okp p) by (eapply Xp; eauto).
  set (w2 := say Ack (if ex && c_preserve cfg then snd (on_fd OChmod p (fs_fchmod (w_fs w1) p mode) w1) else w1)).
  assert (H2 : winv w2).
  { unfold w2. apply winv_say. destruct (ex && c_preserve cfg); auto.
    apply on_fd_inv; auto. intros fs' H'. eapply fs_fchmod_ext; eauto. }
  pose proof (data_loop_inv (S (length (w_in w2))) (blk_cnt cfg) p size 0%Z [] 0 0 w2 Hp H2) as HD.
  destruct (data_loop (S (length (w_in w2))) (blk_cnt cfg) p size 0 [] 0 0 w2) as [| |w3|w3]; cbn [fst]; auto.
  - wsolve.
  - assert (Y : winv (snd (on_fd OTrunc p (fs_truncate (w_fs w3) p size) w3))).
    { apply on_fd_inv; auto. intros fs' H'. eapply fs_truncate_ext; eauto. }
    destruct (on_fd OTrunc p (fs_truncate (w_fs w3) p size) w3) as [tok w4]. cbn [snd] in Y.
    set (w5 := if tok then w4 else say (Err ETrunc) w4).
    assert (H5 : winv w5) by (unfold w5; destruct tok; auto; apply winv_say; auto).
    destruct (w_in w5) as [|r inp].
    + cbn. wsolve.
    + destruct (negb (r =? 0)).
      * cbn. apply winv_say. apply winv_set_in. auto.
      * destruct (se && tok).
        -- pose proof (do_utimes_inv np tv (set_in w5 inp) HP (winv_set_in _ _ H5)) as Z.
           destruct (do_utimes cfg np tv (set_in w5 inp)) as [ok w6]. cbn [snd] in Z.
           apply Hcont. destruct ok; apply winv_say; auto.
        -- apply Hcont. destruct tok; [apply winv_say|]; apply winv_set_in; auto.
Qed.

Lemma loop_inv : forall fuel targ isd st w,
  P targ -> (isd = true -> targ <> []) -> winv w -> winv (fst (loop fuel cfg targ isd st w)).
Proof.
  induction fuel as [|f IH]; intros targ isd st w HP Hne Hw; [exact Hw|].
  cbn [loop].
  destruct (read_line (l_buf st) (w_in w)) as [| |inp| |buf cp ch inp]; cbn [fst]; auto.
  - wsolve.
  - wsolve.
  - wsolve.
  - destruct (buf_set buf cp 0) as [buf1|]; auto.
    destruct buf1 as [|b0 rest1]; auto.
    destruct (if ch =? c_nl then buf_set (b0 :: rest1) (cp - 1) 0 else Some (b0 :: rest1)) as [buf2|]; auto.
    set (w1 := logi (Line (line_of buf2)) (set_in w inp)).
    assert (Hw1 : winv w1) by (apply winv_logi; [exact I|apply winv_set_in; auto]).
    destruct (b0 =? 1); [apply IH; auto|].
    destruct (b0 =? 2); [auto|].
    destruct (b0 =? c_E); [cbn; apply winv_say; auto|].
    destruct (parse_ctl buf2) as [|why|[tv|isdir mode size nm]]; auto.
    + cbn. apply winv_say; auto.
    + apply IH; auto. apply winv_say; auto.
    + rewrite Hchk. cbn [andb].
      destruct (name_ok nm) eqn:Enm; cbn [negb].
      2:{ apply IH; auto. apply winv_say; auto. }
      assert (HPn : P (target_path isd (new_cursize isd (l_cursize st) targ nm) targ nm)) by (apply P_target; auto).
      match goal with |- context [do_stat cfg ?np w1] =>
        pose proof (do_stat_inv np w1 HPn Hw1) as X; destruct (do_stat cfg np w1) as [ex w2]; cbn [snd] in X end.
      destruct isdir.
      * apply handle_dir_inv; auto.
        intros w3 H3. apply enter_inv; auto.
      * apply handle_file_inv; auto.
Qed.

End Confined.

Theorem sink_confined cfg fs stream dp t :
  c_check cfg = true ->
  canon (c_cwd cfg) ->
  resolve fs (c_cwd cfg) (c_dest cfg) = ROk dp t ->
  forall p, In p (touched (fst (sink cfg fs stream))) -> under dp p /\ canon p.
Proof.
  intros Hchk Hcwd Hres.
  assert (Pd : P cfg fs dp (c_dest cfg)).
  { intros fs' He q t' Hq. rewrite (resolve_ext _ _ _ _ _ _ He Hres) in Hq. inversion Hq; subst. apply under_refl. }
  assert (Hinv : winv fs dp (fst (sink cfg fs stream))).
  { unfold sink. apply enter_inv; auto.
    - split; [apply ext_refl|constructor].
    - intros isd w1 H1 Hne. apply loop_inv; auto. }
  destruct Hinv as [_ Hall]. intros p Hin.
  unfold touched in Hin.
  induction (w_log (fst (sink cfg fs stream))) as [|it l IHl]; [destruct Hin|].
  inversion Hall; subst. cbn [fold_right] in Hin.
  destruct it as [o q ok|r|l0|]; auto.
  destruct Hin as [<-|Hin]; auto.
Qed.
