(* Proofs about the receiver model: no fault / fuel bound, bookkeeping lemmas used by the
   confinement and answer theorems (PcpConfined.v, PcpAnswer.v). *)
From PV Require Import Pcp.FsModel Pcp.PcpSink Pcp.FsFacts.
Local Open Scope N_scope.

(* ---- constants ---- *)
Lemma bufsiz_gt2 : 2 < BUFSIZ.
Proof. reflexivity. Qed.
Lemma linemax_lt : LINEMAX < BUFSIZ.
Proof. reflexivity. Qed.
Lemma bufsiz_pos : 0 < BUFSIZ.
Proof. reflexivity. Qed.
Lemma name_slack_ge2 : 2 <= NAME_SLACK.
Proof. discriminate. Qed.
Global Opaque BUFSIZ LINEMAX NAME_SLACK.

(* ---- the line buffer ---- *)
Lemma list_set_ok : forall l k v, (k <= length l)%nat ->
  exists l', list_set l k v = Some l' /\ (k + 1 <= length l')%nat /\ (length l <= length l')%nat /\ In v l' /\ l' <> [].
Proof.
  induction l as [|x r IH]; intros k v Hk.
  - assert (k = 0)%nat as -> by (cbn in Hk; lia). cbn. eexists; split; [reflexivity|]. cbn. repeat split; auto; discriminate.
  - destruct k as [|k'].
    + cbn. eexists; split; [reflexivity|]. cbn. repeat split; auto; try lia; discriminate.
    + cbn [list_set]. destruct (IH k' v) as (l' & E & A & B & C & D); [cbn in Hk; lia|].
      rewrite E. cbn [option_map]. eexists; split; [reflexivity|]. cbn [length]. repeat split; try lia; [right; auto|discriminate].
Qed.

Lemma list_set_in : forall l k v l', list_set l k v = Some l' -> In v l' /\ l' <> [].
Proof.
  induction l as [|x r IH]; intros k v l' H.
  - destruct k; [|discriminate]. cbn in H. inversion H; subst. split; [left; auto|discriminate].
  - destruct k as [|k'].
    + cbn in H. inversion H; subst. split; [left; auto|discriminate].
    + cbn [list_set] in H. destruct (list_set r k' v) as [l0|] eqn:E; [|discriminate].
      cbn in H. inversion H; subst. split; [right; eapply IH; eauto|discriminate].
Qed.

Lemma buf_set_ok buf i v :
  i < BUFSIZ -> (N.to_nat i <= length buf)%nat ->
  exists b', buf_set buf i v = Some b' /\ (N.to_nat i + 1 <= length b')%nat /\
             (length buf <= length b')%nat /\ In v b' /\ b' <> [].
Proof.
  intros Hi Hl. unfold buf_set.
  destruct (BUFSIZ <=? i) eqn:E; [apply N.leb_le in E; lia|].
  apply list_set_ok. exact Hl.
Qed.

Lemma buf_set_in buf i v b' : buf_set buf i v = Some b' -> In v b' /\ b' <> [].
Proof.
  unfold buf_set. destruct (BUFSIZ <=? i); [discriminate|]. apply list_set_in.
Qed.

Lemma read_rest_ok : forall inp buf cp,
  (N.to_nat cp <= length buf)%nat -> 1 <= cp -> cp < BUFSIZ -> (cp < LINEMAX \/ cp = 1) ->
  match read_rest inp buf cp with
  | RL_Fault => False
  | RL_Line b c ch i => (N.to_nat c <= length b)%nat /\ c < BUFSIZ /\ 2 <= c /\ (length i < length inp)%nat
  | RL_Lost => True
  | _ => False
  end.
Proof.
  induction inp as [|ch inp' IH]; intros buf cp Hl H1 Hb Hc; cbn [read_rest]; auto.
  destruct (buf_set_ok buf cp ch Hb Hl) as (b' & -> & Hl' & _ & _ & _).
  destruct ((cp + 1 <? LINEMAX) && negb (ch =? c_nl)) eqn:E.
  - apply andb_true_iff in E as [E _]. apply N.ltb_lt in E.
    pose proof linemax_lt.
    specialize (IH b' (cp + 1)).
    destruct (read_rest inp' b' (cp + 1)); auto; try (apply IH; lia).
    assert (Hx : (N.to_nat (cp + 1) <= length b')%nat) by lia.
    specialize (IH Hx). cbn [length]. intuition lia.
  - pose proof linemax_lt. pose proof bufsiz_gt2. cbn [length]. repeat split; lia.
Qed.

Lemma read_line_ok buf inp :
  match read_line buf inp with
  | RL_Fault => False
  | RL_Line b c ch i => (N.to_nat c <= length b)%nat /\ c < BUFSIZ /\ 2 <= c /\ (length i < length inp)%nat
  | RL_Newline i => (length i < length inp)%nat
  | _ => True
  end.
Proof.
  unfold read_line. destruct inp as [|c inp']; auto.
  pose proof bufsiz_gt2.
  destruct (buf_set_ok buf 0 c) as (b' & -> & Hl' & _ & _ & _); [lia|cbn; lia|].
  destruct (c =? c_nl); [cbn; lia|].
  assert (Hx : (N.to_nat 1 <= length b')%nat) by (cbn in *; lia).
  pose proof (read_rest_ok inp' b' 1 Hx ltac:(lia) ltac:(lia) (or_intror eq_refl)) as H1.
  destruct (read_rest inp' b' 1); auto; try contradiction.
  cbn [length]. intuition lia.
Qed.

(* ---- scanners never run off a buffer that holds a NUL ---- *)
Lemma digit_not0 c : is_digit c = true -> c <> 0.
Proof. unfold is_digit. intros H ->. discriminate. Qed.

Lemma getnum_ok : forall l acc, In 0 l -> exists v l', getnum l acc = POk (v, l') /\ In 0 l'.
Proof.
  induction l as [|c r IH]; intros acc H; [destruct H|]. cbn [getnum].
  destruct (is_digit c) eqn:E.
  - apply IH. destruct H as [H|H]; auto. exfalso. eapply digit_not0; eauto.
  - eauto.
Qed.

Lemma expectc_ok c why l : In 0 l ->
  match expectc c why l with
  | PFault => False
  | POk r => c <> 0 -> In 0 r
  | PScrew _ => True
  end.
Proof.
  destruct l as [|x r]; [intros []|]. cbn [expectc]. intros H.
  destruct (x =? c) eqn:E; auto. apply N.eqb_eq in E. subst x.
  intros Hc. destruct H; congruence.
Qed.

Lemma getmode_ok : forall k l acc, In 0 l ->
  match getmode k l acc with
  | PFault => False
  | POk (_, l') => In 0 l'
  | PScrew _ => True
  end.
Proof.
  induction k as [|k IH]; intros l acc H; cbn [getmode]; auto.
  destruct l as [|c r]; [destruct H|].
  destruct ((c <? 48) || (55 <? c)) eqn:E; auto.
  apply IH. destruct H as [H|H]; auto. subst c. discriminate.
Qed.

Lemma cstr_of_ok : forall l, In 0 l -> exists s, cstr_of l = Some s.
Proof.
  induction l as [|c r IH]; intros H; [destruct H|]. cbn [cstr_of].
  destruct (c =? 0) eqn:E; eauto.
  destruct H as [H|H]; [subst; discriminate|]. destruct (IH H) as [s ->]. cbn. eauto.
Qed.

Ltac use_getnum H :=
  match goal with
  | |- context [getnum ?l ?a] =>
    let v := fresh "v" in let l' := fresh "l" in let E := fresh "E" in let H' := fresh "Hn" in
    destruct (getnum_ok l a H) as (v & l' & E & H'); rewrite E; cbn [pbind]
  end.
Ltac use_expect H :=
  match goal with
  | |- context [expectc ?c ?w ?l] =>
    let H' := fresh "He" in
    pose proof (expectc_ok c w l H) as H'; destruct (expectc c w l); cbn [pbind]; try contradiction; try discriminate
  end.

Lemma parse_ctl_ok buf : In 0 buf -> parse_ctl buf <> PFault.
Proof.
  intros H. unfold parse_ctl. destruct buf as [|b0 r]; [destruct H|].
  destruct (b0 =? c_T) eqn:ET.
  - assert (Hr : In 0 r) by (destruct H as [H|H]; auto; subst; discriminate).
    use_getnum Hr. use_expect Hn. specialize (He ltac:(discriminate)).
    use_getnum He. use_expect Hn0. specialize (He0 ltac:(discriminate)).
    use_getnum He0. use_expect Hn1. specialize (He1 ltac:(discriminate)).
    use_getnum He1. use_expect Hn2.
  - destruct (negb (b0 =? c_C) && negb (b0 =? c_D)) eqn:EC; [discriminate|].
    assert (Hr : In 0 r).
    { destruct H as [H|H]; auto. subst. cbn in EC. discriminate. }
    pose proof (getmode_ok 4 r 0 Hr) as Hm.
    destruct (getmode 4 r 0) as [| |[m l]]; cbn [pbind]; try contradiction; try discriminate.
    use_expect Hm. specialize (He ltac:(discriminate)).
    use_getnum He. use_expect Hn. specialize (He0 ltac:(discriminate)).
    destruct (cstr_of_ok _ He0) as [s ->]. discriminate.
Qed.

(* ---- block buffer ---- *)
Lemma blk_cnt_ok cfg : (BUFSIZ | blk_cnt cfg) /\ 0 < blk_cnt cfg.
Proof.
  unfold blk_cnt, roundup. pose proof bufsiz_pos.
  destruct ((c_blksize cfg + (BUFSIZ - 1)) / BUFSIZ * BUFSIZ =? 0) eqn:E.
  - split; [apply N.divide_refl|auto].
  - apply N.eqb_neq in E. split; [apply N.divide_factor_r|lia].
Qed.

Lemma take_n_len n l a b : take_n n l = Some (a, b) -> (length b + N.to_nat n = length l)%nat /\ length a = N.to_nat n.
Proof.
  unfold take_n. destruct (length l <? N.to_nat n)%nat eqn:E; [discriminate|].
  apply Nat.ltb_ge in E. intro H; inversion H; subst.
  rewrite skipn_length, firstn_length. lia.
Qed.

(* ---- the input only shrinks ---- *)
Lemma w_in_touch o p ok w : w_in (touch o p ok w) = w_in w.
Proof. destruct p; reflexivity. Qed.

Lemma apply_op_in o r w : w_in (snd (apply_op o r w)) = w_in w.
Proof. destruct r as [p [fs|]]; cbn [apply_op snd]; rewrite w_in_touch; reflexivity. Qed.

Lemma do_stat_in cfg s w : w_in (snd (do_stat cfg s w)) = w_in w.
Proof. unfold do_stat. cbn [snd]. apply w_in_touch. Qed.
Lemma do_mkdir_in cfg s m w : w_in (snd (do_mkdir cfg s m w)) = w_in w.
Proof. apply apply_op_in. Qed.
Lemma do_chmod_in cfg s m w : w_in (snd (do_chmod cfg s m w)) = w_in w.
Proof. apply apply_op_in. Qed.
Lemma do_utimes_in cfg s tv w : w_in (snd (do_utimes cfg s tv w)) = w_in w.
Proof. apply apply_op_in. Qed.
Lemma on_fd_in o p r w : w_in (snd (on_fd o p r w)) = w_in w.
Proof. apply apply_op_in. Qed.
Lemma do_open_in cfg s m w : w_in (snd (do_open cfg s m w)) = w_in w.
Proof.
  unfold do_open. destruct (fs_open (w_fs w) (c_cwd cfg) s m (eff_umask cfg)) as [[p|] [[fs' ex]|]]; cbn [snd];
    rewrite ?w_in_touch; reflexivity.
Qed.

Lemma data_loop_ok : forall fuel cnt p size i pend count off w,
  (length (w_in w) < fuel)%nat -> (BUFSIZ | cnt) -> 0 < cnt ->
  ((i < size)%Z -> (BUFSIZ | count) /\ count < cnt) ->
  match data_loop fuel cnt p size i pend count off w with
  | DFault | DFuel => False
  | DEof w' | DDone w' => (length (w_in w') <= length (w_in w))%nat
  end.
Proof.
  induction fuel as [|f IH]; intros cnt p size i pend count off w Hf Hd Hpos Hinv; [lia|].
  cbn [data_loop]. pose proof bufsiz_pos as HB.
  destruct (i <? size)%Z eqn:Ei.
  2:{ destruct (count =? 0); [lia|]. rewrite on_fd_in. lia. }
  apply Z.ltb_lt in Ei. destruct (Hinv Ei) as [Hdc Hlt].
  set (amt := if (size - i <? Z.of_N BUFSIZ)%Z then Z.to_N (size - i) else BUFSIZ).
  assert (Hamt : 1 <= amt <= BUFSIZ).
  { unfold amt. destruct (size - i <? Z.of_N BUFSIZ)%Z eqn:E; [apply Z.ltb_lt in E|]; lia. }
  assert (Hfit : count + BUFSIZ <= cnt).
  { destruct Hd as [k ->]. destruct Hdc as [j ->].
    assert (j < k) by (apply (N.mul_lt_mono_pos_r BUFSIZ); lia).
    assert ((j + 1) * BUFSIZ <= k * BUFSIZ) by (apply N.mul_le_mono_r; lia). lia. }
  destruct (cnt <? count + amt) eqn:Ec; [apply N.ltb_lt in Ec; lia|].
  destruct (take_n amt (w_in w)) as [[chunk rest]|] eqn:Et; [|cbn; lia].
  apply take_n_len in Et. destruct Et as [Et _].
  assert (Hnext : (i + Z.of_N BUFSIZ < size)%Z -> amt = BUFSIZ).
  { intro Hn. unfold amt. destruct (size - i <? Z.of_N BUFSIZ)%Z eqn:E; [apply Z.ltb_lt in E; lia|reflexivity]. }
  destruct (count + amt =? cnt) eqn:Ee.
  - match goal with |- match data_loop f cnt p size ?i' [] 0 ?off' ?w' with _ => _ end =>
      specialize (IH cnt p size i' [] 0 off' w') end.
    rewrite on_fd_in in IH. cbn [w_in set_in] in IH.
    match type of IH with _ -> _ -> _ -> _ -> match ?X with _ => _ end => destruct X end;
      try (apply IH; try lia; auto; intros; split; [apply N.divide_0_r|lia]).
    + assert (length (w_in w0) <= length rest)%nat by (apply IH; try lia; auto; intros; split; [apply N.divide_0_r|lia]). lia.
    + assert (length (w_in w0) <= length rest)%nat by (apply IH; try lia; auto; intros; split; [apply N.divide_0_r|lia]). lia.
  - apply N.eqb_neq in Ee.
    match goal with |- match data_loop f cnt p size ?i' ?pe ?co ?off' ?w' with _ => _ end =>
      specialize (IH cnt p size i' pe co off' w') end.
    cbn [w_in set_in] in IH.
    assert (Hinv' : (i + Z.of_N BUFSIZ < size)%Z -> (BUFSIZ | count + amt) /\ count + amt < cnt).
    { intro Hn. rewrite (Hnext Hn) in *. split; [|lia].
      apply N.divide_add_r; auto. apply N.divide_refl. }
    match type of IH with _ -> _ -> _ -> _ -> match ?X with _ => _ end => destruct X end;
      try (apply IH; try lia; auto).
    + assert (length (w_in w0) <= length rest)%nat by (apply IH; try lia; auto). lia.
    + assert (length (w_in w0) <= length rest)%nat by (apply IH; try lia; auto). lia.
Qed.
