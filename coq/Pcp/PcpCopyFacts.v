(* C11: sender and receiver together. *)
From PV Require Import Pcp.FsModel Pcp.PcpSink Pcp.PcpClient Pcp.FsFacts Pcp.FsAlgebra Pcp.FsForward
  Pcp.PcpSinkFacts Pcp.PcpRecords Pcp.PcpEncode Pcp.PcpRound.
Local Open Scope N_scope.

(* ---- C11_blocks ---- *)
Theorem blocks_exact cfg p m t old d rest w :
  lookup (w_fs w) p = Some (File m t old) -> w_in w = d ++ rest ->
  exists w2 fs3,
    data_loop (S (length (w_in w))) (blk_cnt cfg) p (Z.of_nat (length d)) 0%Z [] 0 0 w = DDone w2 /\
    w_in w2 = rest /\
    fs_truncate (w_fs w2) p (Z.of_nat (length d)) = Some fs3 /\
    lookup fs3 p = Some (File m None d) /\
    set_at (w_fs w) p (File m None d) = Some fs3.
Proof.
  intros Hl Hin. pose proof (blk_cnt_ok cfg) as [Hdv Hpos].
  destruct (data_loop_exact (S (length (w_in w))) (blk_cnt cfg) p (Z.of_nat (length d)) 0%Z [] 0 0 w d rest m t old [])
    as (w2 & t2 & Ed & Hin2 & Hl2 & Hsb & Hq2); auto.
  - rewrite Hin, app_length. lia.
  - intro Hlt. repeat split; [lia|apply N.divide_0_r|exact Hpos].
  - intro Hge. apply length_zero_iff_nil. lia.
  - cbn [app] in Hl2.
    destruct (fs_truncate_file (w_fs w2) p _ _ _ (Z.of_nat (length d)) Hl2 ltac:(lia)) as (fs3 & Et & Hs3).
    rewrite Nat2Z.id in Hs3. unfold overlay in Hs3. rewrite resize_exact in Hs3.
    exists w2, fs3. repeat split; auto.
    + apply (lookup_set_at _ _ _ _ Hs3).
    + rewrite <- Hs3. symmetry. apply Hsb.
Qed.

(* ---- well-formed sources have distinct sibling names ---- *)
Lemma wf_src_names cfg : forall n, wf_src cfg n -> wf_names n.
Proof.
  induction n as [m t d|m t ents IH] using node_ind2; intro H; [exact I|].
  apply wf_src_dir in H. destruct H as (_ & Hd & Hl). apply wf_names_dir. split; [exact Hd|].
  induction ents as [|[k v] r IHr]; [exact I|]. inversion IH; subst.
  cbn [wf_src_list] in Hl. destruct Hl as (_ & Hv & Hr). cbn [wf_names_list]. split; [apply H1; exact Hv|].
  apply IHr; auto. unfold names_distinct in *. cbn [map] in Hd. now inversion Hd.
Qed.

(* ---- C11_roundtrip: the conversation and what it leaves behind ---- *)
(* sent_entry c = the source under the name the receiver is told (".host" appended for a reverse copy) *)
Theorem copy_roundtrip cfg c fs (l : list src) dp t dm dt de :
  cc_preserve c = c_preserve cfg ->
  (forall pre k n, In (pre, k, n) l ->
     lookup (cc_fs c) (cc_cwd c ++ pre ++ [k]) = Some n /\ (pre <> [] \/ beq k sentinel = false)) ->
  wf_src_list cfg (map (sent_entry c) l) -> names_distinct (map (sent_entry c) l) ->
  fits_list (length (c_dest cfg)) (map (sent_entry c) l) ->
  (forall k v, In (k, v) (map (sent_entry c) l) -> assoc k de = None) ->
  resolve fs (c_cwd cfg) (c_dest cfg) = ROk dp t -> lookup fs dp = Some (Dir dm dt de) ->
  (c_preserve cfg = true -> c_dirmode cfg = true) ->
  exists stream w' copies dt',
    (* the receiver's run on the stream *)
    sink cfg fs stream = (w', RetEnd) /\
    (* the stream is what the sender writes given the answers the receiver has given by then *)
    client c (top_files l) (seen_replies w') = stream /\
    (* every answer is an acknowledgement, all input is consumed *)
    replies w' = repeat Ack (1 + n_acks_list (c_preserve cfg) (map (sent_entry c) l)) /\ w_in w' = [] /\
    (* the target directory holds its old entries and, after them, a faithful copy of every source *)
    lookup (w_fs w') dp = Some (Dir dm dt' (de ++ copies)) /\
    faithful_list cfg (map (sent_entry c) l) copies /\
    (* and nothing else changed *)
    set_at fs dp (Dir dm dt' (de ++ copies)) = Some (w_fs w').
Proof.
  intros Hp Hsrc Hwf Hd Hfit Hfresh Hr Hl Hdm.
  destruct (sink_encode cfg fs (map (sent_entry c) l) dp t dm dt de Hr Hl Hwf Hd Hfit Hfresh)
    as (w' & fs' & Es & Ef & Hset & Hrep & Hseen & Hin).
  exists (encode_list (c_preserve cfg) (map (sent_entry c) l)), w', (copy_list cfg dm (map (sent_entry c) l)),
         (match map (sent_entry c) l with [] => dt | _ => None end).
  split; [exact Es|]. split.
  - rewrite Hseen. rewrite <- Hp.
    rewrite <- (app_nil_r (repeat Ack _)). apply client_all_acks.
    intros pre k n Hin'. destruct (Hsrc pre k n Hin') as [A B]. repeat split; auto.
    apply (wf_src_names cfg).
    assert (Hi : In (k ++ suffix_of c true, n) (map (sent_entry c) l)) by (change (k ++ suffix_of c true, n) with (sent_entry c (pre, k, n)); now apply in_map).
    clear -Hwf Hi. induction (map (sent_entry c) l) as [|[k' v'] r IH]; [destruct Hi|].
    cbn [wf_src_list] in Hwf. destruct Hwf as (_ & Hv & Hr). destruct Hi as [E|Hi]; [inversion E; subst; exact Hv|auto].
  - split; [exact Hrep|]. split; [exact Hin|]. split; [rewrite Ef; apply (lookup_set_at _ _ _ _ Hset)|].
    split; [apply copy_list_faithful; exact Hdm|]. rewrite Ef. exact Hset.
Qed.
