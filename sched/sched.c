/* Controlled scheduler for the whole, unmodified pdsh program.
 *
 * The program (all of pdsh's sources, main() renamed pdsh_main) is linked with
 * -Wl,--wrap= for the calls below.  Threads are real pthreads, but only the thread holding
 * the token runs; at every wrapped call the running thread announces the operation it is
 * about to perform and the scheduler picks the next action: run a thread whose operation is
 * enabled, wake a condition-variable waiter spuriously, advance the virtual clock, or deliver
 * a scripted signal.  The choice comes from a seeded strategy or from a replay file.
 * Every performed action is written to the trace (one line each).
 *
 * Transport: the simrcmd module (sched/simrcmd.c, loaded by pdsh's own module loader)
 * calls sim_connect/sim_signal/sim_destroy here; its descriptors are virtual (>= VFD0) and
 * served by the wrapped poll/read/close from a per-host script.
 *
 * Environment:
 *   SCHED_TRACE   file for the trace           SCHED_SEED   seed of the random strategy
 *   SCHED_REPLAY  file with one choice per line (overrides the strategy; falls back to it at EOF)
 *   SCHED_SPUR    budget of spurious wake-ups  SCHED_SIGS   e.g. "INT@12,TSTP@30" (signal @ step)
 *   SCHED_PSPUR / SCHED_PTICK  percent probabilities
 *   SIM_SCRIPT    per-host behaviour file (see sim_load)
 */
#define _GNU_SOURCE
#include <pthread.h>
#include <stdio.h>
#include <stdlib.h>
#include <string.h>
#include <errno.h>
#include <signal.h>
#include <poll.h>
#include <time.h>
#include <unistd.h>
#include <stdint.h>
#include <stdarg.h>

#define MAXT 600
#define MAXM 64
#define VFD0 100000

int pdsh_main(int argc, char **argv);

/* ---------- real functions ---------- */
int __real_pthread_create(pthread_t *, const pthread_attr_t *, void *(*)(void *), void *);
int __real_pthread_mutex_lock(pthread_mutex_t *);
int __real_pthread_mutex_unlock(pthread_mutex_t *);
int __real_pthread_cond_wait(pthread_cond_t *, pthread_mutex_t *);
int __real_pthread_cond_signal(pthread_cond_t *);
ssize_t __real_read(int, void *, size_t);
int __real_close(int);
int __real_poll(struct pollfd *, nfds_t, int);
int __real_fputs(const char *, FILE *);
void __real_exit(int) __attribute__((noreturn));

/* ---------- scheduler state ---------- */
enum { OP_NONE, OP_NOP, OP_START, OP_LOCK, OP_UNLOCK, OP_WAIT, OP_RELOCK, OP_SIGNAL, OP_SLEEP, OP_POLL, OP_READ,
       OP_CONNECT, OP_SIGWAIT, OP_FPUTS, OP_CREATE, OP_KILL, OP_DESTROY, OP_RSIGNAL, OP_EXIT, OP_DONE };
static const char *opname[] = { "none", "nop", "start", "lock", "unlock", "wait", "relock", "signal", "sleep", "poll", "read",
       "connect", "sigwait", "fputs", "create", "kill", "destroy", "rsignal", "exit", "done" };

struct thr {
    int used, done;
    int op;                 /* pending operation */
    void *obj;              /* mutex / cond it refers to */
    int mid, cid;
    int woken;              /* cond waiter has been signalled / spuriously woken */
    long wake_at;           /* sleep */
    int eintr;              /* a signal interrupted the blocking call */
    struct pollfd *pfds; int npfds;
    int host;               /* simrcmd host index for connect */
    int role;               /* 'M' main, 'D' watchdog, 'S' signals, 'W' worker */
    int wid;                /* worker: nodeid */
    pthread_t real;
    void *(*fn)(void *); void *arg;
};
static struct thr T[MAXT];
static int nthr;
static __thread int self = -1;
static int token = 0;
static pthread_mutex_t G = PTHREAD_MUTEX_INITIALIZER;
static pthread_cond_t C[MAXT];

static void *mtx_obj[MAXM]; static int mtx_owner[MAXM]; static int nmtx;
static void *cnd_obj[MAXM]; static int ncnd;

static long vclock = 1000;           /* virtual time(), seconds */
static long step;
static FILE *trace;
static uint64_t rng;
static FILE *replay;
static int spur_budget, pspur = 10, ptick = 5;
static int sig_pending = 0;          /* signal waiting to be taken by sigwait */
static struct { int signo; long at; int done; } sigs[16]; static int nsigs;
static long idle_ticks;
/* preemption-bounded mode (SCHED_PB="k1@c1,k2@c2,..."): base policy = keep running the thread that ran last
 * while it is enabled, else the lowest-numbered enabled thread; clock ticks only when nothing else can move;
 * at choice point number k_j the c_j-th legal action (threads first, then optional actions) is taken instead */
static int pb_mode; static struct { long k; int c; } pb[8]; static int npb; static long choice_no; static int last_thread = 0;
static long max_steps = 400000;   /* SCHED_MAXSTEP: a run that needs more is reported as STEPLIMIT (e.g. waiting for ever on a hung host with no command timeout) */

static uint64_t rnd(void)
{
    uint64_t z = (rng += 0x9E3779B97F4A7C15ULL);
    z = (z ^ (z >> 30)) * 0xBF58476D1CE4E5B9ULL;
    z = (z ^ (z >> 27)) * 0x94D049BB133111EBULL;
    return z ^ (z >> 31);
}

/* a second stream for the data-arrival choices in poll(), so that a replayed schedule (which draws
 * nothing from the first stream) sees the same arrivals */
static uint64_t rng2;
static uint64_t rnd2(void)
{
    uint64_t z = (rng2 += 0x9E3779B97F4A7C15ULL);
    z = (z ^ (z >> 30)) * 0xBF58476D1CE4E5B9ULL;
    z = (z ^ (z >> 27)) * 0x94D049BB133111EBULL;
    return z ^ (z >> 31);
}

static void tr(const char *fmt, ...)
{
    va_list ap;
    if (!trace) return;
    fprintf(trace, "%ld ", step);
    va_start(ap, fmt);
    vfprintf(trace, fmt, ap);
    va_end(ap);
    fputc('\n', trace);
}

/* only dsh.c's threadcount_mutex (m0), thd_mutex (m1) and threadcount_cond (c0) are scheduling
 * points; their addresses are taken from the symbol table by the driver (the program is linked
 * -no-pie) and passed in SCHED_ADDRS="<threadcount_mutex>,<thd_mutex>,<threadcount_cond>".
 * All other mutexes (xmalloc, per-object cbuf/hostlist locks) are uncontended under the token. */
static void *addr_tc, *addr_thd, *addr_cond;
static int *addr_tcvar;   /* dsh.c's threadcount, read at unlock events (observed, never written) */
static int uyield;
static int pcfail, pcfailed;
static int sigeintr, sigeintr_armed;
static int is_static(void *p) { return p == addr_tc || p == addr_thd || p == addr_cond; }

static int mtx_id(void *m)
{
    if (nmtx == 0) { mtx_obj[0] = addr_tc; mtx_obj[1] = addr_thd; mtx_owner[0] = mtx_owner[1] = -1; nmtx = 2; }
    for (int i = 0; i < nmtx; i++) if (mtx_obj[i] == m) return i;
    mtx_obj[nmtx] = m; mtx_owner[nmtx] = -1;
    return nmtx++;
}
static int cnd_id(void *c)
{
    for (int i = 0; i < ncnd; i++) if (cnd_obj[i] == c) return i;
    cnd_obj[ncnd] = c;
    return ncnd++;
}

/* ---------- simulated transport ---------- */
struct chunk { int kind; /* 'A' data, 'H' hang */ unsigned char *b; size_t n, off; };
struct stream { struct chunk c[64]; int n, cur; int closed; };
struct simhost {
    char name[256];
    int connect;            /* 'o' ok, 'r' refuse, 'h' hang */
    struct stream out, err;
    int drc;                /* value returned by rcmd destroy */
    int connects, destroys, torn, connected;
    int kills[8]; int nkills;
    int sep;                /* separate stderr requested */
};
static struct simhost H[MAXT];
static int nhosts;
static int inflight, peak;

static int hexv(int c)
{
    if (c >= '0' && c <= '9') return c - '0';
    if (c >= 'a' && c <= 'f') return c - 'a' + 10;
    return 0;
}
static void load_stream(struct stream *s, char *txt)
{
    char *save = NULL, *p;
    s->n = s->cur = 0;
    if (!txt || !strcmp(txt, "-")) return;
    for (p = strtok_r(txt, "/", &save); p && s->n < 64; p = strtok_r(NULL, "/", &save)) {
        struct chunk *c = &s->c[s->n++];
        c->kind = p[0]; c->off = 0; c->n = 0; c->b = NULL;
        if (p[0] == 'M') {           /* in-band status: resolved at connect time, see sim_resolve_markers */
            c->n = (size_t)atoi(p + 1);
        } else if (p[0] == 'A') {
            c->n = strlen(p + 1) / 2;
            c->b = malloc(c->n + 1);
            for (size_t i = 0; i < c->n; i++) c->b[i] = (unsigned char)(hexv(p[1 + 2 * i]) * 16 + hexv(p[2 + 2 * i]));
        }
    }
}
/* SIM_SCRIPT: one host per line:  <name> <o|r|h> <out-items|-> <err-items|-> <destroy-rc> */
static void sim_load(void)
{
    const char *fn = getenv("SIM_SCRIPT");
    FILE *f = fn ? fopen(fn, "r") : NULL;
    char *line = NULL; size_t cap = 0;
    if (!f) return;
    while (getline(&line, &cap, f) > 0 && nhosts < MAXT) {
        char *save = NULL;
        char *name = strtok_r(line, " \n", &save), *c = strtok_r(NULL, " \n", &save);
        char *o = strtok_r(NULL, " \n", &save), *e = strtok_r(NULL, " \n", &save), *d = strtok_r(NULL, " \n", &save);
        struct simhost *h;
        if (!name || !c) continue;
        h = &H[nhosts++];
        memset(h, 0, sizeof *h);
        snprintf(h->name, sizeof h->name, "%s", name);
        h->connect = c[0];
        load_stream(&h->out, o);
        load_stream(&h->err, e);
        h->drc = d ? atoi(d) : 0;
    }
    fclose(f);
}
static int host_index(const char *name)
{
    for (int i = 0; i < nhosts; i++) if (!strcmp(H[i].name, name)) return i;
    /* unknown host: behaves ok with no output */
    if (nhosts < MAXT) {
        struct simhost *h = &H[nhosts];
        memset(h, 0, sizeof *h);
        snprintf(h->name, sizeof h->name, "%s", name);
        h->connect = 'o';
        return nhosts++;
    }
    return 0;
}
static struct stream *vfd_stream(int fd, int *host)
{
    int k = fd - VFD0;
    if (k < 0 || k >= 2 * MAXT) return NULL;
    if (host) *host = k / 2;
    return (k & 1) ? &H[k / 2].err : &H[k / 2].out;
}
static int stream_ready(struct stream *s)
{
    if (s->closed) return 1;                 /* POLLNVAL-ish: report */
    if (s->cur >= s->n) return 1;            /* EOF */
    return s->c[s->cur].kind == 'A';
}

/* ---------- choosing the next action ---------- */
static int op_enabled(int k)
{
    struct thr *t = &T[k];
    if (!t->used || t->done) return 0;
    switch (t->op) {
    case OP_NONE: case OP_DONE: return 0;
    case OP_LOCK: return mtx_owner[t->mid] == -1;
    case OP_RELOCK: return t->woken && mtx_owner[t->mid] == -1;
    case OP_SLEEP: return vclock >= t->wake_at;
    case OP_POLL: {
        if (t->eintr) return 1;
        for (int i = 0; i < t->npfds; i++) {
            struct stream *s = vfd_stream(t->pfds[i].fd, NULL);
            if (s && stream_ready(s)) return 1;
        }
        return 0;
    }
    case OP_CONNECT: return H[t->host].connect != 'h' || t->eintr;
    case OP_SIGWAIT: return sig_pending != 0;
    default: return 1;
    }
}

/* an action is encoded as: >= 0 thread id; -1 tick; -2 - k spurious wake of thread k; -1000 - i deliver signal i */
static int next_choice(int *acts, int n)
{
    if (pb_mode) {
        choice_no++;
        for (int j = 0; j < npb; j++)
            if (pb[j].k == choice_no) {
                if (pb[j].c < n) return acts[pb[j].c];
                tr("PB-OOB %ld %d of %d", choice_no, pb[j].c, n);
                if (trace) fflush(trace);
                _exit(96);
            }
        for (int i = 0; i < n; i++) if (acts[i] == last_thread) return last_thread;
        for (int i = 0; i < n; i++) if (acts[i] >= 0) return acts[i];      /* acts lists threads in increasing order */
        for (int i = 0; i < n; i++) if (acts[i] == -1) return -1;
        return acts[0];
    }
    if (replay) {
        char buf[64];
        if (fgets(buf, sizeof buf, replay)) {
            int want = atoi(buf);
            for (int i = 0; i < n; i++) if (acts[i] == want) return want;
            tr("REPLAY-MISMATCH wanted %d", want);
        } else {
            fclose(replay); replay = NULL;
        }
    }
    return acts[rnd() % n];
}

static void die_deadlock(void)
{
    tr("DEADLOCK");
    for (int k = 0; k < nthr; k++)
        if (T[k].used && !T[k].done) tr("BLOCKED t%d %c%d %s", k, T[k].role, T[k].wid, opname[T[k].op]);
    if (trace) fflush(trace);
    _exit(97);
}

/* pick and apply non-thread actions until a thread is chosen; returns its id. G is held. */
static int schedule(void)
{
    for (;;) {
        int acts[2 * MAXT + 32], n = 0, nthreads = 0, sleepers = 0, progress_possible = 0;
        for (int k = 0; k < nthr; k++) if (op_enabled(k)) { acts[n++] = k; nthreads++; }
        for (int k = 0; k < nthr; k++) if (T[k].used && !T[k].done && T[k].op == OP_SLEEP && vclock < T[k].wake_at) sleepers++;
        /* is anything but the watchdog alive and able to benefit from time passing? */
        for (int k = 0; k < nthr; k++)
            if (T[k].used && !T[k].done && T[k].role != 'D' && T[k].role != 'S') progress_possible = 1;
        if (nthreads > 0) {
            /* optional extras: spurious wake-ups, ticks, signals */
            if (spur_budget > 0)
                for (int k = 0; k < nthr; k++)
                    if (T[k].used && !T[k].done && T[k].op == OP_RELOCK && !T[k].woken && (replay || pb_mode || (int)(rnd() % 100) < pspur))
                        acts[n++] = -2 - k;
            /* when replaying, every legal action is on offer: the file decides */
            if (sleepers && (replay || pb_mode || (int)(rnd() % 100) < ptick)) acts[n++] = -1;
        } else {
            if (spur_budget > 0)
                for (int k = 0; k < nthr; k++)
                    if (T[k].used && !T[k].done && T[k].op == OP_RELOCK && !T[k].woken)
                        acts[n++] = -2 - k;
            if (sleepers && progress_possible && idle_ticks < 100000) acts[n++] = -1;
        }
        for (int i = 0; i < nsigs; i++)
            if (!sigs[i].done && (replay || pb_mode || step >= sigs[i].at) && !sig_pending) { acts[n++] = -1000 - i; }
        if (n == 0) die_deadlock();
        {
            int a = next_choice(acts, n);
            step++;
            if (step > max_steps) { tr("STEPLIMIT"); if (trace) fflush(trace); _exit(98); }
            if (a >= 0) { idle_ticks = 0; last_thread = a; tr("RUN %d", a); return a; }
            if (a == -1) { vclock++; idle_ticks++; tr("TICK %ld", vclock); continue; }
            if (a <= -1000) {
                int i = -1000 - a;
                sigs[i].done = 1; sig_pending = sigs[i].signo;
                tr("SIGARRIVE %d idx %d", sig_pending, i);
                continue;
            }
            {
                int k = -2 - a;
                T[k].woken = 1; spur_budget--;
                tr("SPURIOUS %d", k);
                continue;
            }
        }
    }
}

/* announce pending op, let the scheduler decide, return when it is our turn. G must NOT be held. */
static void yield_op(int op)
{
    __real_pthread_mutex_lock(&G);
    T[self].op = op;
    {
        int k = schedule();
        if (k != self) {
            token = k;
            __real_pthread_cond_signal(&C[k]);
            while (token != self) __real_pthread_cond_wait(&C[self], &G);
        }
    }
    /* our op is enabled and we hold the token; caller applies its effect with G held */
}
static void yield_end(void)
{
    T[self].op = OP_NONE;
    __real_pthread_mutex_unlock(&G);
}

static const char *who(int k)
{
    static __thread char b[4][32];
    static __thread int r;
    char *p = b[r++ & 3];
    snprintf(p, 32, "%c%d", T[k].role, T[k].wid);
    return p;
}

/* ---------- wrapped pthread API ---------- */
static void *trampoline(void *a)
{
    int k = (int)(intptr_t)a;
    self = k;
    __real_pthread_mutex_lock(&G);
    while (token != self) __real_pthread_cond_wait(&C[self], &G);
    tr("START %s", who(k));
    T[k].op = OP_NONE;
    __real_pthread_mutex_unlock(&G);
    T[k].fn(T[k].arg);
    /* thread function returned */
    __real_pthread_mutex_lock(&G);
    T[k].done = 1; T[k].op = OP_DONE;
    tr("FINISH %s", who(k));
    {
        int n = schedule();
        token = n;
        __real_pthread_cond_signal(&C[n]);
    }
    __real_pthread_mutex_unlock(&G);
    return NULL;
}

/* layout of pdsh's thd_t is not needed: the worker's identity is taken at connect time */
int __wrap_pthread_create(pthread_t *th, const pthread_attr_t *attr, void *(*fn)(void *), void *arg)
{
    int k;
    /* SCHED_PCFAIL=k: the creation of the k-th worker thread fails with EAGAIN (a resource fault in the middle of a run) */
    if (pcfail > 0 && nthr >= 3 && nthr - 3 + 1 == pcfail && !pcfailed) {
        pcfailed = 1;
        tr("CREATEFAIL W%d by %s", nthr - 3, who(self));
        return EAGAIN;
    }
    yield_op(OP_CREATE);
    k = nthr++;
    memset(&T[k], 0, sizeof T[k]);
    T[k].used = 1; T[k].fn = fn; T[k].arg = arg; T[k].op = OP_START;
    T[k].role = k == 1 ? 'D' : k == 2 ? 'S' : 'W';
    T[k].wid = k >= 3 ? k - 3 : 0;
    pthread_cond_init(&C[k], NULL);
    tr("CREATE %s by %s", who(k), who(self));
    __real_pthread_create(&T[k].real, NULL, trampoline, (void *)(intptr_t)k);
    *th = T[k].real;
    yield_end();
    return 0;
}

int __wrap_pthread_mutex_lock(pthread_mutex_t *m)
{
    if (self < 0) return __real_pthread_mutex_lock(m);
    if (!is_static(m)) {
        /* an uncontended library lock (xmalloc, cbuf, hostlist): still a point where the thread
         * may be preempted, so that code between two such calls is interleaved with other threads */
        if (nthr > 3) { yield_op(OP_NOP); yield_end(); }
        return __real_pthread_mutex_lock(m);
    }
    __real_pthread_mutex_lock(&G);
    T[self].mid = mtx_id(m);
    __real_pthread_mutex_unlock(&G);
    yield_op(OP_LOCK);
    mtx_owner[T[self].mid] = self;
    tr("LOCK %s m%d", who(self), T[self].mid);
    yield_end();
    return 0;
}
int __wrap_pthread_mutex_unlock(pthread_mutex_t *m)
{
    if (self < 0) return __real_pthread_mutex_unlock(m);
    if (!is_static(m)) {
        /* SCHED_UYIELD: the release of a library lock is a preemption point too (the code right after
         * cbuf_read/hostlist calls then interleaves with other threads); off by default so that recorded
         * schedules keep their meaning */
        int rc = __real_pthread_mutex_unlock(m);
        if (uyield && nthr > 3) { yield_op(OP_NOP); yield_end(); }
        return rc;
    }
    __real_pthread_mutex_lock(&G);
    T[self].mid = mtx_id(m);
    __real_pthread_mutex_unlock(&G);
    yield_op(OP_UNLOCK);
    mtx_owner[T[self].mid] = -1;
    tr("UNLOCK %s m%d tc %d", who(self), T[self].mid, addr_tcvar ? *addr_tcvar : -1);
    yield_end();
    return 0;
}
/* pdsh's own allocator entry points (xmalloc.c): with SCHED_UYIELD each call is a preemption point, so that string
 * building (xstrcat and friends: a scratch buffer filled, then copied) interleaves with other threads */
void *__real_Malloc(size_t n);
void __real_Realloc(void **item, size_t n);
void *__wrap_Malloc(size_t n)
{
    if (self >= 0 && uyield && nthr > 3) { yield_op(OP_NOP); yield_end(); }
    return __real_Malloc(n);
}
void __wrap_Realloc(void **item, size_t n)
{
    if (self >= 0 && uyield && nthr > 3) { yield_op(OP_NOP); yield_end(); }
    __real_Realloc(item, n);
}
int __wrap_pthread_cond_wait(pthread_cond_t *c, pthread_mutex_t *m)
{
    if (self < 0 || !is_static(c)) return __real_pthread_cond_wait(c, m);
    __real_pthread_mutex_lock(&G);
    T[self].mid = mtx_id(m); T[self].cid = cnd_id(c);
    __real_pthread_mutex_unlock(&G);
    yield_op(OP_WAIT);
    mtx_owner[T[self].mid] = -1;
    T[self].woken = 0;
    tr("WAIT %s c%d m%d", who(self), T[self].cid, T[self].mid);
    yield_end();
    yield_op(OP_RELOCK);
    mtx_owner[T[self].mid] = self;
    tr("WOKEN %s c%d m%d", who(self), T[self].cid, T[self].mid);
    yield_end();
    return 0;
}
int __wrap_pthread_cond_signal(pthread_cond_t *c)
{
    int cid, woke = -1;
    if (self < 0 || !is_static(c)) return __real_pthread_cond_signal(c);
    __real_pthread_mutex_lock(&G);
    cid = cnd_id(c);
    __real_pthread_mutex_unlock(&G);
    yield_op(OP_SIGNAL);
    for (int k = 0; k < nthr; k++)
        if (T[k].used && !T[k].done && T[k].op == OP_RELOCK && T[k].cid == cid && !T[k].woken) { T[k].woken = 1; woke = k; break; }
    tr("SIGNAL %s c%d woke %d", who(self), cid, woke);
    yield_end();
    return 0;
}
int __wrap_pthread_kill(pthread_t th, int sig)
{
    int target = -1;
    yield_op(OP_KILL);
    for (int k = 0; k < nthr; k++) if (T[k].used && pthread_equal(T[k].real, th)) target = k;
    if (target >= 0 && !T[target].done && (T[target].op == OP_POLL || T[target].op == OP_CONNECT))
        T[target].eintr = 1;
    tr("PKILL %s -> %s sig %d", who(self), target >= 0 ? who(target) : "?", sig);
    yield_end();
    return 0;
}
int __wrap_pthread_cancel(pthread_t th)
{
    __real_pthread_mutex_lock(&G);
    for (int k = 0; k < nthr; k++) if (T[k].used && pthread_equal(T[k].real, th)) { T[k].done = 1; tr("CANCEL %s", who(k)); }
    __real_pthread_mutex_unlock(&G);
    return 0;
}
int __wrap_sigwait(const sigset_t *set, int *sig)
{
    /* SCHED_SIGEINTR: the call that follows a delivered signal fails once with EINTR (as the raw system call can), leaving *sig alone */
    if (sigeintr && sigeintr_armed) { sigeintr_armed = 0; return EINTR; }
    yield_op(OP_SIGWAIT);
    sigeintr_armed = 1;
    *sig = sig_pending;
    sig_pending = 0;
    tr("SIGWAIT %s got %d", who(self), *sig);
    yield_end();
    return 0;
}
unsigned int __wrap_sleep(unsigned int n)
{
    if (self < 0) return 0;
    __real_pthread_mutex_lock(&G);
    T[self].wake_at = vclock + n;
    __real_pthread_mutex_unlock(&G);
    yield_op(OP_SLEEP);
    tr("SLEPT %s until %ld", who(self), vclock);
    yield_end();
    return 0;
}
time_t __wrap_time(time_t *p)
{
    time_t v = (time_t)vclock;
    if (p) *p = v;
    return v;
}
int __wrap_raise(int sig)
{
    __real_pthread_mutex_lock(&G);
    tr("RAISE %s %d", who(self), sig);
    __real_pthread_mutex_unlock(&G);
    return 0;
}

/* ---------- wrapped I/O ---------- */
int __wrap_poll(struct pollfd *fds, nfds_t n, int timeout)
{
    int anyv = 0, rv = 0;
    for (nfds_t i = 0; i < n; i++) if (fds[i].fd >= VFD0) anyv = 1;
    if (!anyv || self < 0) return __real_poll(fds, n, timeout);
    __real_pthread_mutex_lock(&G);
    T[self].pfds = fds; T[self].npfds = (int)n;
    __real_pthread_mutex_unlock(&G);
    yield_op(OP_POLL);
    if (T[self].eintr) {
        T[self].eintr = 0;
        tr("POLL %s EINTR", who(self));
        yield_end();
        errno = EINTR;
        return -1;
    }
    {
        /* report a non-empty subset of the ready descriptors (arrival order is a scheduling choice) */
        int ready[8], nr = 0;
        for (nfds_t i = 0; i < n && nr < 8; i++) {
            struct stream *s = vfd_stream(fds[i].fd, NULL);
            fds[i].revents = 0;
            if (s && stream_ready(s)) ready[nr++] = (int)i;
        }
        if (nr > 1 && rnd2() % 2) {           /* drop some, keep at least one */
            int keep = ready[rnd2() % nr];
            for (int j = 0; j < nr; j++) if (ready[j] != keep && rnd2() % 2) ready[j] = -1;
        }
        for (int j = 0; j < nr; j++) if (ready[j] >= 0) { fds[ready[j]].revents = POLLIN; rv++; }
    }
    tr("POLL %s ready %d", who(self), rv);
    yield_end();
    return rv;
}
ssize_t __wrap_read(int fd, void *buf, size_t n)
{
    int hi = 0;
    struct stream *s = vfd_stream(fd, &hi);
    ssize_t r;
    if (!s || self < 0) return __real_read(fd, buf, n);
    yield_op(OP_READ);
    if (s->closed) { r = -1; errno = EBADF; }
    else if (s->cur >= s->n) r = 0;
    else if (s->c[s->cur].kind != 'A') { r = -1; errno = EAGAIN; }
    else {
        struct chunk *c = &s->c[s->cur];
        size_t k = c->n - c->off;
        if (k > n) k = n;
        memcpy(buf, c->b + c->off, k);
        c->off += k;
        if (c->off == c->n) s->cur++;
        r = (ssize_t)k;
    }
    tr("READ %s h%d %s %zd", who(self), hi, (fd & 1) ? "err" : "out", r);
    yield_end();
    return r;
}
int __wrap_close(int fd)
{
    int hi = 0;
    struct stream *s = vfd_stream(fd, &hi);
    if (!s) return __real_close(fd);
    __real_pthread_mutex_lock(&G);
    s->closed = 1;
    tr("CLOSE %s h%d %s", self >= 0 ? who(self) : "?", hi, (fd & 1) ? "err" : "out");
    __real_pthread_mutex_unlock(&G);
    return 0;
}
int __wrap_fputs(const char *str, FILE *f)
{
    if (self < 0 || (f != stdout && f != stderr)) return __real_fputs(str, f);
    yield_op(OP_FPUTS);
    if (trace) {
        fprintf(trace, "%ld FPUTS %s %s ", step, who(self), f == stdout ? "out" : "err");
        if (!*str) fputc('-', trace);
        for (const char *p = str; *p; p++) fprintf(trace, "%02x", (unsigned char)*p);
        fputc('\n', trace);
    }
    yield_end();
    return 0;
}
void __wrap_exit(int code)
{
    if (self >= 0) {
        __real_pthread_mutex_lock(&G);
        tr("EXIT %s %d inflight %d peak %d", who(self), code, inflight, peak);
        for (int i = 0; i < nhosts; i++)
            tr("HOST %s connects %d destroys %d kills %d", H[i].name, H[i].connects, H[i].destroys, H[i].nkills);
        if (trace) fflush(trace);
    }
    _exit(code);
}

/* ---------- entry points used by the simrcmd module ---------- */
/* an 'M<code>' item stands for what a remote shell does with the status suffix pdsh appends to the command
 * (";echo XXRETCODE:$?"): the marker line with that code if the command carries the suffix, nothing otherwise */
static void sim_resolve_markers(struct stream *s, const char *cmd)
{
    int want = cmd && strstr(cmd, "XXRETCODE:") != NULL, k = 0;
    for (int i = 0; i < s->n; i++) {
        struct chunk c = s->c[i];
        if (c.kind == 'M') {
            if (!want) continue;
            char line[64];
            int len = snprintf(line, sizeof line, "XXRETCODE:%d\n", (int)c.n);
            c.kind = 'A'; c.n = (size_t)len; c.off = 0;
            c.b = malloc((size_t)len + 1);
            memcpy(c.b, line, (size_t)len);
        }
        s->c[k++] = c;
    }
    s->n = k;
}
int sim_connect(const char *host, const char *user, const char *cmd, int rank, int *efd, const char *modname)
{
    int hi, fd = -1;
    __real_pthread_mutex_lock(&G);
    hi = host_index(host);
    sim_resolve_markers(&H[hi].out, cmd);
    T[self].host = hi;
    T[self].eintr = 0;
    H[hi].connects++;
    inflight++;
    if (inflight > peak) peak = inflight;
    tr("CONNBEGIN %s h%d %s user %s rank %d inflight %d", who(self), hi, host, user ? user : "-", rank, inflight);
    __real_pthread_mutex_unlock(&G);
    yield_op(OP_CONNECT);
    if (H[hi].connect != 'h') T[self].eintr = 0;   /* a signal handled while connect() completes is not seen later */
    if (H[hi].connect == 'o') {
        fd = VFD0 + 2 * hi;
        if (efd) { *efd = fd + 1; H[hi].sep = 1; }
        H[hi].connected = 1;
        tr("CONNECT %s h%d ok", who(self), hi);
    } else if (H[hi].connect == 'r') {
        tr("CONNECT %s h%d refused", who(self), hi);
        errno = ECONNREFUSED;
    } else {
        T[self].eintr = 0;
        tr("CONNECT %s h%d interrupted", who(self), hi);
        errno = EINTR;
    }
    yield_end();
    return fd;
}
int sim_signal(const char *host, int sig)
{
    int hi;
    yield_op(OP_RSIGNAL);
    hi = host_index(host);
    if (H[hi].nkills < 8) H[hi].kills[H[hi].nkills] = sig;
    H[hi].nkills++;
    tr("RSIGNAL %s h%d sig %d", who(self), hi, sig);
    yield_end();
    return 0;
}
int sim_destroy(const char *host)
{
    int hi, rc;
    yield_op(OP_DESTROY);
    hi = host_index(host);
    H[hi].destroys++;
    inflight--;
    rc = H[hi].drc;
    tr("DESTROY %s h%d rc %d inflight %d", who(self), hi, rc, inflight);
    yield_end();
    return rc;
}

/* ---------- main ---------- */
int main(int argc, char **argv)
{
    const char *s;
    int rc;
    if ((s = getenv("SCHED_TRACE"))) trace = fopen(s, "w");
    rng = (s = getenv("SCHED_SEED")) ? strtoull(s, NULL, 10) : 1;
    rng2 = rng ^ 0x5DEECE66DULL;
    if ((s = getenv("SCHED_REPLAY"))) replay = fopen(s, "r");
    spur_budget = (s = getenv("SCHED_SPUR")) ? atoi(s) : 0;
    if ((s = getenv("SCHED_PSPUR"))) pspur = atoi(s);
    if ((s = getenv("SCHED_PTICK"))) ptick = atoi(s);
    if ((s = getenv("SCHED_MAXSTEP"))) max_steps = atol(s);
    if ((s = getenv("SCHED_UYIELD"))) uyield = atoi(s);
    if ((s = getenv("SCHED_PCFAIL"))) pcfail = atoi(s);
    if ((s = getenv("SCHED_SIGEINTR"))) sigeintr = atoi(s);
    if ((s = getenv("SCHED_PB"))) {
        char *dup = strdup(s), *save = NULL;
        pb_mode = 1;
        for (char *p = strtok_r(dup, ",", &save); p && npb < 8; p = strtok_r(NULL, ",", &save)) {
            char *at = strchr(p, '@');
            if (!at) continue;
            pb[npb].k = atol(p); pb[npb].c = atoi(at + 1); npb++;
        }
    }
    if ((s = getenv("SCHED_SIGS"))) {
        char *dup = strdup(s), *save = NULL;
        for (char *p = strtok_r(dup, ",", &save); p && nsigs < 16; p = strtok_r(NULL, ",", &save)) {
            char *at = strchr(p, '@');
            sigs[nsigs].signo = !strncmp(p, "INT", 3) ? SIGINT : SIGTSTP;
            sigs[nsigs].at = at ? atol(at + 1) : 0;
            sigs[nsigs].done = 0;
            nsigs++;
        }
    }
    if ((s = getenv("SCHED_ADDRS"))) {
        unsigned long a = 0, b = 0, c = 0, v = 0;
        sscanf(s, "%lx,%lx,%lx,%lx", &a, &b, &c, &v);
        addr_tc = (void *)a; addr_thd = (void *)b; addr_cond = (void *)c; addr_tcvar = (int *)v;
    }
    sim_load();
    memset(T, 0, sizeof T);
    T[0].used = 1; T[0].role = 'M';
    pthread_cond_init(&C[0], NULL);
    nthr = 1; self = 0; token = 0;
    rc = pdsh_main(argc, argv);
    exit(rc);
}
