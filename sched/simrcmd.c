/* simrcmd: a pdsh rcmd module whose "connections" are the scripted, virtual descriptors of
 * sched/sched.c.  Loaded by pdsh's own module loader from the scratch module directory. */
#if HAVE_CONFIG_H
#include "config.h"
#endif
#include <string.h>
#include <stdlib.h>
#include "src/pdsh/opt.h"
#include "src/pdsh/mod.h"
#include "src/pdsh/rcmd.h"
#include "src/common/err.h"
#include "src/common/xmalloc.h"

int sim_connect(const char *host, const char *user, const char *cmd, int rank, int *efd, const char *modname);
int sim_signal(const char *host, int sig);
int sim_destroy(const char *host);

int pdsh_module_priority = DEFAULT_MODULE_PRIORITY;

static int sim_init(opt_t *opt)
{
    if (rcmd_opt_set(RCMD_OPT_RESOLVE_HOSTS, 0) < 0)
        errx("%p: simrcmd: rcmd_opt_set: %m\n");
    return 0;
}
static int sim_rsignal(int fd, void *arg, int signum)
{
    return sim_signal((char *)arg, signum);
}
static int sim_rcmd(char *ahost, char *addr, char *luser, char *ruser, char *cmd, int rank, int *fd2p, void **arg)
{
    int fd;
    *arg = Strdup(ahost);
    fd = sim_connect(ahost, ruser, cmd, rank, fd2p, SIMNAME);
    if (fd < 0)     /* like the real transports: report the failure under the host's name */
        err("%p: %S: connect: %m\n", ahost);
    return fd;
}
static int sim_rdestroy(void *arg)
{
    int rc = sim_destroy((char *)arg);
    Free((void **)&arg);
    return rc;
}

struct pdsh_module_operations sim_module_ops = { NULL, NULL, NULL, NULL };
struct pdsh_rcmd_operations sim_rcmd_ops = {
    (RcmdInitF) sim_init, (RcmdSigF) sim_rsignal, (RcmdF) sim_rcmd, (RcmdDestroyF) sim_rdestroy
};
struct pdsh_module_option sim_module_options[] = { PDSH_OPT_TABLE_END };
struct pdsh_module pdsh_module_info = {
    "rcmd", SIMNAME, "verif", "scripted transport for the controlled scheduler", DSH | PCP,
    &sim_module_ops, &sim_rcmd_ops, &sim_module_options[0],
};
