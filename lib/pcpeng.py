"""'pcp' engine: the real pdcp/rpdcp (whole pdsh rebuilt out of tree, ASan+UBSan) run inside throw-away
directory trees; snapshots; conversion of trees to and from the model runner's token format."""
import os, stat, subprocess, shutil, hashlib, sys
sys.setrecursionlimit(20000)       # trees nested thousands of levels deep are walked recursively
import vlib, realeng

REPO = vlib.REPO
PAD = ["p1", "p2", "p3", "p4", "p5", "p6", "p7", "p8"]     # directory levels between the sandbox root and the cwd
MAXUP = 6                                                   # a stream fed to the real code holds at most this many ".."


class PcpReal:
    """pdsh/pdcp/rpdcp built from vlib.REPO with a scratch module dir holding the suite's pcptest transport."""

    def __init__(self, ctx, san=True, tag="pcpreal"):
        d = os.path.join(ctx.scratch, tag)
        os.makedirs(os.path.join(d, "mods"), exist_ok=True)
        os.makedirs(os.path.join(d, "bin"), exist_ok=True)
        self.dir, self.mods = d, os.path.join(d, "mods")
        cfg = os.path.join(d, "cfg.c")
        open(cfg, "w").write('char *pdsh_version = "pdsh-verif"; char *pdsh_module_dir = "%s/mods";\n' % d)
        inc = ["-DHAVE_CONFIG_H", "-D" + vlib.GUARD, "-I" + REPO, "-I" + REPO + "/src/pdsh", "-I" + REPO + "/src/common", "-w", "-g", "-O1"]
        # signed overflow of the size/time scanners wraps (the model carries the wrap); everything else aborts
        sanf = ["-fsanitize=address,undefined", "-fno-sanitize=signed-integer-overflow", "-fwrapv", "-fno-sanitize-recover=all",
                "-fno-omit-frame-pointer"] if san else []
        self.exe = os.path.join(d, "bin", "pdsh")
        rc, out = vlib.sh(["gcc"] + inc + sanf + [cfg, os.path.join(vlib.VERIF, "harness", "fake_blksize.c")] + realeng.SRCS +
                          ["-Wl,--wrap=fstat", "-rdynamic", "-ldl", "-lpthread", "-o", self.exe])
        if rc:
            raise vlib.BuildError("real pdsh build:\n" + out[-4000:])
        for link in ("pdcp", "rpdcp"):
            os.symlink("pdsh", os.path.join(d, "bin", link))
        mapfile = os.path.join(REPO, "tests/test-modules/version.map")
        for src, name in ((os.path.join(REPO, "tests/test-modules/pcptest.c"), "pcptest"),
                          (os.path.join(REPO, "src/modules/execcmd.c"), "execcmd")):
            rc, out = vlib.sh(["gcc", "-shared", "-fPIC"] + inc + sanf + [src, "-Wl,--version-script=" + mapfile,
                               "-o", os.path.join(self.mods, name + ".so")])
            if rc:
                raise vlib.BuildError("module build %s:\n%s" % (name, out[-3000:]))

    def path(self, prog):
        return os.path.join(self.dir, "bin", prog)

    def run(self, args, prog="pdcp", stdin=b"", timeout=20, cwd=None, umask=0o022, env=None, fsize=None):
        e = {"PATH": os.path.join(self.dir, "bin") + ":/usr/bin:/bin", "HOME": "/root", "LANG": "C",
             "ASAN_OPTIONS": "detect_leaks=0:abort_on_error=0:allocator_may_return_null=1", "UBSAN_OPTIONS": "print_stacktrace=0"}
        if env:
            e.update(env)
        def pre():
            os.umask(umask)
            if fsize is not None:
                # a file-size limit for the whole run: writes beyond it fail with EFBIG (SIGXFSZ ignored, inherited across exec)
                import resource, signal
                signal.signal(signal.SIGXFSZ, signal.SIG_IGN)
                resource.setrlimit(resource.RLIMIT_FSIZE, (fsize, fsize))
        try:
            p = subprocess.run([self.path(prog)] + list(args), env=e, input=stdin, stdout=subprocess.PIPE, stderr=subprocess.PIPE,
                               timeout=timeout, cwd=cwd, preexec_fn=pre)
            return p.returncode, p.stdout, p.stderr
        except subprocess.TimeoutExpired as ex:
            return -999, ex.stdout or b"", ex.stderr or b""


def crashed(rc, err):
    """sanitizer report, signal or time-out: a description, else None"""
    if rc == -999:
        return "hang (time limit)"
    t = err.decode("latin-1", "replace")
    if "ERROR: AddressSanitizer" in t or "runtime error:" in t or "LeakSanitizer" in t or (rc is not None and rc < 0):
        return vlib.summarize_crash(t, rc)
    return None


# ---------------- trees ----------------
# a tree is ("D", mode, mtime|None, {name(bytes): tree}) or ("F", mode, mtime|None, data(bytes))

def snapshot(path):
    st = os.lstat(path)
    m = stat.S_IMODE(st.st_mode)
    if stat.S_ISDIR(st.st_mode):
        kids = {}
        for n in os.listdir(os.fsencode(path)):          # readdir order: the order the sender sees (left free by the property)
            kids[n] = snapshot(os.path.join(os.fsencode(path), n))
        return ("D", m, int(st.st_mtime), kids)
    if stat.S_ISREG(st.st_mode):
        with open(path, "rb") as f:
            return ("F", m, int(st.st_mtime), f.read())
    return ("X", m, int(st.st_mtime), os.readlink(path) if stat.S_ISLNK(st.st_mode) else b"")


def materialize(tree, path):
    """create the tree on disk (path must not exist, or be an empty directory for a D root)"""
    k, m, mt, x = tree
    if k == "D":
        os.makedirs(path, exist_ok=True)
        for n, ch in x.items():
            materialize(ch, os.path.join(os.fsencode(path), n))
        os.chmod(path, m)
    else:
        with open(path, "wb") as f:
            f.write(x)
        os.chmod(path, m)
    if mt is not None:
        os.utime(path, (mt, mt))


def flat(tree, prefix=()):
    """{path tuple: (kind, mode, mtime, data-or-None)}"""
    out = {prefix: (tree[0], tree[1], tree[2], tree[3] if tree[0] != "D" else None)}
    if tree[0] == "D":
        for n, ch in tree[3].items():
            out.update(flat(ch, prefix + (n,)))
    return out


def tokens(tree, name=b"", with_mtime=False):
    k, m, mt, x = tree
    mts = str(mt) if (with_mtime and mt is not None) else "_"
    if k == "D":
        out = ["D", str(m), mts, vlib.hexs(name), str(len(x))]
        for n in x:
            out += tokens(x[n], n, with_mtime)
        return out
    return ["F", str(m), mts, vlib.hexs(name), vlib.hexs(x)]


def parse_tokens(t, i=0):
    """inverse of tokens: returns (name, tree, next index)"""
    if t[i] == "F":
        return vlib.unhex(t[i + 3]), ("F", int(t[i + 1]), None if t[i + 2] == "_" else int(t[i + 2]), vlib.unhex(t[i + 4])), i + 5
    assert t[i] == "D", t[i:i + 5]
    n = int(t[i + 4])
    name, mode, mt = vlib.unhex(t[i + 3]), int(t[i + 1]), (None if t[i + 2] == "_" else int(t[i + 2]))
    kids = {}
    j = i + 5
    for _ in range(n):
        kn, kt, j = parse_tokens(t, j)
        kids[kn] = kt
    return name, ("D", mode, mt, kids), j


def parse_answer(line):
    """model answer -> dict(ret, replies [str], touches [(op, ok, path tuple)], rest, tree)"""
    w = line.split(" ")
    if w[0] != "OK":
        return None
    reps = [] if w[2] == "R=." else w[2][2:].split(",")
    tch = []
    if w[3] != "T=.":
        for t in w[3][2:].split(","):
            head, p = t.split(":")
            tch.append((head[0], head[1] == "1", () if p == "." else tuple(vlib.unhex(c) for c in p.split("/"))))
    assert w[5] == "FS"
    _, tree, _ = parse_tokens(w, 6)
    return {"ret": w[1], "replies": reps, "touches": tch, "rest": int(w[4][5:]), "tree": tree}


def reply_tokens(out):
    """bytes written by the receiver -> ['A' | 'E' | '?'] (a \\001 record runs to its newline)"""
    toks, i = [], 0
    while i < len(out):
        if out[i] == 0:
            toks.append("A")
            i += 1
        elif out[i] == 1:
            j = out.find(b"\n", i)
            toks.append("E" if j >= 0 else "E?")
            i = (j + 1) if j >= 0 else len(out)
        else:
            toks.append("?")
            i += 1
    return toks


def diff_trees(a, b):
    """paths (tuples) whose kind/mode/content differ, were added or removed; mtimes ignored"""
    fa, fb = flat(a), flat(b)
    out = []
    for p in sorted(set(fa) | set(fb)):
        x, y = fa.get(p), fb.get(p)
        if x is None or y is None or (x[0], x[1], x[3]) != (y[0], y[1], y[3]):
            out.append(p)
    return out


def mtime_diffs(a, b):
    fa, fb = flat(a), flat(b)
    return [p for p in sorted(set(fa) & set(fb)) if fa[p][2] != fb[p][2]]


def mksandbox(base, idx, cwd_tree):
    """base/<idx>/p1/../p8 = cwd populated with cwd_tree (a 'D' tree); returns (root, cwd)"""
    root = os.path.join(base, "s%06d" % idx)
    cwd = os.path.join(root, *PAD)
    os.makedirs(os.path.dirname(cwd))
    materialize(cwd_tree, cwd)
    return root, cwd
