"""'sched' engine: the whole pdsh program under the controlled scheduler (sched/sched.c) with the
scripted transport (sched/simrcmd.c)."""
import os, re, subprocess
import vlib

REPO = vlib.REPO
WRAPS = "pthread_create pthread_mutex_lock pthread_mutex_unlock pthread_cond_wait pthread_cond_signal pthread_kill pthread_cancel sigwait sleep time raise poll read close fputs exit Malloc Realloc".split()
SRCS = [os.path.join(REPO, "src/pdsh", f + ".c") for f in ("dsh", "mod", "rcmd", "opt", "privsep", "pcp_server", "pcp_client", "testcase", "wcoll", "cbuf")] + \
       [os.path.join(REPO, "src/common", f + ".c") for f in ("err", "fd", "hostlist", "list", "pipecmd", "split", "xmalloc", "xpoll", "xstring")]


class Sched:
    def __init__(self, ctx, san=False, tag="sched"):
        self.ctx = ctx
        d = os.path.join(ctx.scratch, tag)
        os.makedirs(os.path.join(d, "mods"), exist_ok=True)
        self.dir = d
        cfg = os.path.join(d, "cfg.c")
        open(cfg, "w").write('char *pdsh_version = "verif"; char *pdsh_module_dir = "%s/mods";\n' % d)
        inc = ["-DHAVE_CONFIG_H", "-D" + vlib.GUARD, "-I" + REPO, "-I" + REPO + "/src/pdsh", "-I" + REPO + "/src/common", "-w", "-g", "-O1", "-fno-builtin"]
        sanf = ["-fsanitize=address,undefined", "-fno-sanitize-recover=all"] if san else []
        mo = os.path.join(d, "main.o")
        rc, out = vlib.sh(["gcc"] + inc + sanf + ["-Dmain=pdsh_main", "-c", os.path.join(REPO, "src/pdsh/main.c"), "-o", mo])
        if rc:
            raise vlib.BuildError("sched build (main.c):\n" + out[-3000:])
        self.exe = os.path.join(d, "pdsh")
        cmd = ["gcc"] + inc + sanf + ["-no-pie", os.path.join(vlib.VERIF, "sched", "sched.c"), mo, cfg] + SRCS + \
              ["-rdynamic", "-ldl", "-lpthread"] + ["-Wl,--wrap=" + w for w in WRAPS] + ["-o", self.exe]
        rc, out = vlib.sh(cmd)
        if rc:
            raise vlib.BuildError("sched build:\n" + out[-4000:])
        rc, out = vlib.sh(["gcc", "-shared", "-fPIC", "-g"] + sanf + ["-DHAVE_CONFIG_H", '-DSIMNAME="sim"', "-I" + REPO, "-w",
                           os.path.join(vlib.VERIF, "sched", "simrcmd.c"),
                           "-Wl,--version-script=" + os.path.join(vlib.VERIF, "sched", "version.map"), "-o", os.path.join(d, "mods", "sim.so")])
        if rc:
            raise vlib.BuildError("simrcmd build:\n" + out[-3000:])
        rc, out = vlib.sh(["nm", self.exe])
        a = {}
        for l in out.splitlines():
            f = l.split()
            if len(f) == 3 and f[2] in ("threadcount_mutex", "thd_mutex", "threadcount_cond", "threadcount"):
                a[f[2]] = f[0]
        self.addrs = "%s,%s,%s,%s" % (a.get("threadcount_mutex", "0"), a.get("thd_mutex", "0"), a.get("threadcount_cond", "0"), a.get("threadcount", "0"))
        self.have_syms = all(k in a for k in ("threadcount_mutex", "thd_mutex", "threadcount_cond"))
        self.runs = 0

    def run(self, args, hosts, seed=1, spur=0, sigs=None, replay=None, pspur=10, ptick=5, timeout=20, env=None, nofile=None, pb=None):
        """hosts: list of (name, connect 'o'|'r'|'h', out_items, err_items, destroy_rc); returns Run"""
        self.runs += 1
        import threading
        uid = "%d-%d" % (os.getpid(), threading.get_ident())
        sc = os.path.join(self.dir, "script-%s.txt" % uid)
        with open(sc, "w") as f:
            for name, c, o, e, drc in hosts:
                f.write("%s %s %s %s %d\n" % (name, c, o or "-", e or "-", drc))
        trf = os.path.join(self.dir, "trace-%s.txt" % uid)
        e = dict(os.environ, SCHED_ADDRS=self.addrs, SCHED_TRACE=trf, SIM_SCRIPT=sc, SCHED_SEED=str(seed), SCHED_SPUR=str(spur),
                 SCHED_PSPUR=str(pspur), SCHED_PTICK=str(ptick), ASAN_OPTIONS="detect_leaks=0")
        e.pop("WCOLL", None)
        if sigs:
            e["SCHED_SIGS"] = sigs
        if replay is not None:
            rp = os.path.join(self.dir, "replay-%s.txt" % uid)
            open(rp, "w").write("\n".join(str(x) for x in replay) + "\n")
            e["SCHED_REPLAY"] = rp
        if pb is not None:
            e["SCHED_PB"] = ",".join("%d@%d" % (k, c) for k, c in pb) or "0@0"
        if env:
            e.update(env)
        pre = None
        if nofile:
            import resource

            def pre():
                resource.setrlimit(resource.RLIMIT_NOFILE, (nofile, nofile))
        lines = []
        for attempt in (1, 2):
            try:
                p = subprocess.run([self.exe] + args, env=e, stdout=subprocess.PIPE, stderr=subprocess.PIPE, timeout=timeout * attempt,
                                   stdin=subprocess.DEVNULL, preexec_fn=pre)
                code, errtxt = p.returncode, p.stderr.decode("latin-1", "replace")
            except subprocess.TimeoutExpired:
                code, errtxt = -999, "wall-clock timeout"
            try:
                lines = open(trf, errors="replace").read().splitlines()
            except OSError:
                lines = []
            if code != -999:
                break
            # a wall-clock timeout on a loaded machine is not a verdict: if the trace shows that the program ended, take
            # that; otherwise run the same thing once more with twice the time before calling it a hang
            ended = [l for l in lines if " EXIT " in l or l.endswith(" DEADLOCK") or l.endswith(" STEPLIMIT")]
            if ended:
                f = ended[-1].split(" ")
                code = int(f[3]) if f[1] == "EXIT" else (97 if f[1] == "DEADLOCK" else 98)
                errtxt = "(process outlived its wall-clock limit after the run had ended)"
                break
        ru = Run(args, hosts, seed, spur, sigs, code, errtxt, lines)
        ru.env = {k: v for k, v in (env or {}).items() if k.startswith("SCHED_") and k != "SCHED_MAXSTEP"}      # engine options that shape the run (for replays)
        return ru


class Run:
    def __init__(self, args, hosts, seed, spur, sigs, code, errtxt, lines):
        self.args, self.hosts, self.seed, self.spur, self.sigs = args, hosts, seed, spur, sigs
        self.code, self.errtxt, self.lines = code, errtxt, lines
        self.events = []          # (step, kind, fields)
        self.choices = []         # the schedule: action codes, for replay
        self.deadlock = False
        self.steplimit = False
        self.pb_oob = False
        self.exit_by = None
        self.exit = None
        self.peak = None
        self.hoststats = {}
        self.outs = []            # (step, who, stream, bytes)
        for l in lines:
            try:
                f = l.split(" ")
                if len(f) < 2:
                    continue
                st, k = int(f[0]), f[1]
                if k == "RUN":
                    self.choices.append(int(f[2]))
                elif k == "TICK":
                    self.choices.append(-1)
                elif k == "SPURIOUS":
                    self.choices.append(-2 - int(f[2]))
                elif k == "SIGARRIVE":
                    self.choices.append(-1000 - int(f[4]) if len(f) > 4 else "sig")
                if k == "DEADLOCK":
                    self.deadlock = True
                elif k == "STEPLIMIT":
                    self.steplimit = True
                elif k == "PB-OOB":
                    self.pb_oob = True
                elif k == "EXIT":
                    self.exit = int(f[3])
                    self.exit_by = f[2]
                    self.peak = int(f[7])
                    self.exit_step = st
                elif k == "HOST":
                    self.hoststats[f[2]] = (int(f[4]), int(f[6]), int(f[8]))
                elif k == "FPUTS":
                    self.outs.append((st, f[2], f[3], vlib.unhex(f[4])))
                self.events.append((st, k, f[2:]))
            except (IndexError, ValueError):
                continue        # a line cut short (the process was killed while writing it)

    def model_events(self):
        """map the trace to the events of Dsh/Dispatch.v"""
        out = []
        for st, k, f in self.events:
            if k == "LOCK" and f[1] == "m0":
                out.append("LD" if f[0] == "M0" else "l" + f[0][1:])
            elif k == "UNLOCK" and f[1] == "m0":
                tcv = (":" + f[3]) if len(f) > 3 and f[2] == "tc" and f[3] != "-1" else ""
                out.append(("UD" if f[0] == "M0" else "u" + f[0][1:]) + tcv)
            elif k == "WAIT" and f[0] == "M0":
                out.append("WD")
            elif k == "WOKEN" and f[0] == "M0":
                out.append("KD")
            elif k == "CREATE" and f[0].startswith("W"):
                out.append("C" + f[0][1:])
            elif k == "CONNBEGIN":
                out.append("c" + f[0][1:])
            elif k == "DESTROY":
                out.append("d" + f[0][1:])
            elif k == "SIGNAL" and f[1] == "c0":
                out.append("s" + f[0][1:])
            elif k == "SPURIOUS":
                out.append("SP")
            elif k == "EXIT":
                out.append("X")
        return out

    def sys_events(self):
        """map the trace to the event tokens of Dsh/Sys.v (see ocaml/sys_runner.ml)"""
        out = []
        ev = self.events
        for j, (st, k, f) in enumerate(ev):
            who = f[0] if f else ""
            W = who[1:] if who[:1] == "W" else None
            if k == "LOCK":
                if f[1] == "m0":
                    out.append("LD" if who == "M0" else "SL0" if who == "S0" else "l" + W if W is not None else "?lock0" + who)
                elif f[1] == "m1":
                    out.append("SL1" if who == "S0" else "a" + W if W is not None else "?lock1" + who)
            elif k == "UNLOCK":
                if f[1] == "m0":
                    tcv = (":" + f[3]) if len(f) > 3 and f[2] == "tc" and f[3] != "-1" else ""
                    out.append(("UD" if who == "M0" else "SU0" if who == "S0" else "u" + W if W is not None else "?unlock0" + who) + (tcv if who != "S0" else ""))
                elif f[1] == "m1":
                    out.append("SU1" if who == "S0" else "b" + W if W is not None else "?unlock1" + who)
            elif k == "WAIT" and who == "M0":
                out.append("WD")
            elif k == "WOKEN" and who == "M0":
                out.append("KD")
            elif k == "CREATE" and W is not None:
                out.append("C" + W)
            elif k == "START":
                if W is not None:
                    out.append("S" + W)
                elif who == "D0":
                    out.append("WW")
            elif k == "CONNBEGIN":
                out.append("B" + (W or "?" + who))
            elif k == "CONNECT":
                out.append({"ok": "o", "refused": "r", "interrupted": "i"}[f[2]] + (W or "?" + who))
            elif k == "POLL" and f[1] == "EINTR":
                out.append("p" + (W or "?" + who))
            elif k == "FPUTS" and W is not None and f[1] == "err" and b"command timeout" in vlib.unhex(f[2]):
                out.append("R" + W)
            elif k == "FPUTS" and who == "S0" and f[1] == "err" and b"to cancel pending threads" in vlib.unhex(f[2]):
                out.append("MK")      # the second notice of a first ^C: last_intr is stamped right after it
            elif k == "RSIGNAL":
                out.append(("G" + f[1][1:]) if who == "S0" else ("t" + (W or "?" + who)))
            elif k == "DESTROY":
                out.append("d" + (W or "?" + who))
            elif k == "SIGNAL" and f[1] == "c0" and W is not None:
                out.append("s" + W)
            elif k == "SLEPT" and who == "D0":
                out.append("WW")
            elif k == "PKILL" and who == "D0":
                out.append("K" + f[2][1:])
            elif k == "SIGARRIVE":
                out.append("AI" if f[0] == "2" else "AT")
            elif k == "SIGWAIT":
                nxt = next(((kk, ff) for (_, kk, ff) in ev[j + 1:] if ff and ff[0] == "S0"), None)
                out.append("RA" if (nxt and nxt[0] == "RAISE") else "TK")
            elif k == "TICK":
                out.append("TI")
            elif k == "SPURIOUS":
                out.append("SP")
            elif k == "EXIT":
                out.append("X" if who == "M0" else "XS" if who == "S0" else "?exit" + who)
        return out

    def summary(self):
        return {"args": self.args, "seed": self.seed, "spur": self.spur, "sigs": self.sigs, "exit": self.exit, "code": self.code,
                "peak": self.peak, "deadlock": self.deadlock, "steps": len(self.choices)}


def explore_pb(eng, args, hosts, depth, max_runs=200000, workers=None, **kw):
    """Exhaustive exploration of the schedules with at most `depth` deviations from the scheduler's base policy
    (run the last thread while it can move, else the lowest-numbered one, clock ticks only when nothing else can):
    at every choice point of every explored run every other legal action (another thread, a spurious wake-up, a
    clock tick, a pending signal) is tried.  Yields Run objects (duplicates of the parent schedule are skipped)."""
    import concurrent.futures as cf
    workers = workers or min(16, (os.cpu_count() or 4))
    out = []
    base = eng.run(args, hosts, pb=[], **kw)
    out.append(base)
    frontier = [([], base)]
    total = 1
    with cf.ThreadPoolExecutor(workers) as ex:
        for level in range(depth):
            nxt = []

            def children(item):
                prefix, parent = item
                res = []
                if parent.steplimit or parent.deadlock or parent.exit is None:
                    return res      # a run that never ends is reported by the caller as it is; its thousands of choice points are not expanded
                start = prefix[-1][0] + 1 if prefix else 1
                for k in range(start, len(parent.choices) + 1):
                    c = 0
                    while True:
                        ru = eng.run(args, hosts, pb=prefix + [(k, c)], **kw)
                        if ru.pb_oob:
                            break
                        if ru.choices != parent.choices:
                            res.append((prefix + [(k, c)], ru))
                        c += 1
                        if c > 12:
                            break
                return res
            for res in ex.map(children, frontier):
                for item in res:
                    out.append(item[1])
                    nxt.append(item)
                    total += 1
                if total >= max_runs:
                    break
            frontier = nxt
            if total >= max_runs:
                break
    return out
