"""C02 engine: generators, the independent Python specification S, encoders for the extracted model
(ocaml/excl_runner.ml) and runners for the real binary.

A command line is a list of options ('w' | 'x', [word, ...]); a word is one of
  ('hosts', expr)            a target expression
  ('excl', expr)             '-expr' inside -w, or a plain word inside -x
  ('file', excluded, key)    '^path' / '-^path' (inside -x: '^path'); key names an entry of case['files']
  ('regex', excluded, pat)   '/pat/' / '-/pat/' (inside -x: '/pat/')
An expression is a list of terms; a term is
  ('plain', name) | ('br', pfx, ranges, sfx) | ('br2', pfx, ranges, mid, ranges2, sfx)
with ranges = [(lo_text, hi_text_or_None), ...] exactly as typed (zero padding is in the text)."""
import os, re, itertools
import vlib
from vlib import hexs

MAX_HOST_SUFFIX = 1 << 25


# ---------------------------------------------------------------- S: what an expression means
def range_nums(rs):
    out = []
    for lo_t, hi_t in rs:
        lo = int(lo_t)
        hi = int(hi_t) if hi_t is not None else lo
        w = len(lo_t)
        for n in range(lo, hi + 1):
            out.append(b"%0*d" % (w, n))
    return out


def term_names(t):
    if t[0] == "plain":
        return [t[1]]
    if t[0] == "br":
        return [t[1] + n + t[3] for n in range_nums(t[2])]
    _, p, rs, mid, rs2, sfx = t
    return [p + n + mid + m + sfx for n in range_nums(rs) for m in range_nums(rs2)]


def expr_names(e):
    return [n for t in e for n in term_names(t)]


def ranges_text(rs):
    return b",".join(lo if hi is None else lo + b"-" + hi for lo, hi in rs)


def term_text(t):
    if t[0] == "plain":
        return t[1]
    if t[0] == "br":
        return t[1] + b"[" + ranges_text(t[2]) + b"]" + t[3]
    _, p, rs, mid, rs2, sfx = t
    return p + b"[" + ranges_text(rs) + b"]" + mid + b"[" + ranges_text(rs2) + b"]" + sfx


def expr_text(e):
    return b",".join(term_text(t) for t in e)


def py_match(pat, name):
    """the oracle's reading of a (simple) POSIX extended regex; None = not a valid pattern"""
    try:
        return re.search(pat, name) is not None
    except re.error:
        return None


def _max_ranges():
    """the largest number of items between one pair of brackets that the host-list parser accepts (hostlist.c MAX_RANGES in the
    tree this machinery was built against; deliberately NOT read from the tree under test: an exclusion of a few thousand
    items that used to work must keep working)"""
    return 10240


def spec(case, matches):
    """S.  Returns ('OK', [names]) | ('ERRX',).  `matches(pat, name)` -> True/False/None (None: does not compile)"""
    targets, excl, keep, drop = [], set(), [], []
    bad_excl = False
    for _, words in case["opts"]:
        for wd in words:
            if wd[0] == "hosts":
                targets += expr_names(wd[1])
            elif wd[0] == "rawx":
                bad_excl = True                  # an exclusion word that is not a host expression: refused, never skipped
            elif wd[0] == "excl":
                if any(t[0] in ("br", "br2") and len(t[2]) > _max_ranges() for t in wd[1]):
                    bad_excl = True              # more items between brackets than the parser accepts: refused, never skipped
                    continue
                excl.update(expr_names(wd[1]))
            elif wd[0] == "file":
                lines = case["files"].get(wd[2])
                if lines is None:
                    return ("ERRX",)
                names = [n for e in lines for n in expr_names(e)]
                if wd[1]:
                    excl.update(names)
                else:
                    targets += names
            elif wd[0] == "regex":
                if matches(wd[2], b"") is None:
                    return ("ERRX",)
                (drop if wd[1] else keep).append(wd[2])
    if bad_excl and targets:
        return ("ERRX",)
    out = [h for h in targets if h not in excl and all(matches(p, h) for p in keep) and not any(matches(p, h) for p in drop)]
    return ("OK", out)


def all_target_names(case):
    out = []
    for _, words in case["opts"]:
        for wd in words:
            if wd[0] == "hosts":
                out += expr_names(wd[1])
            elif wd[0] == "file" and not wd[1] and case["files"].get(wd[2]) is not None:
                out += [n for e in case["files"][wd[2]] for n in expr_names(e)]
    return out


def patterns(case):
    return sorted({wd[2] for _, ws in case["opts"] for wd in ws if wd[0] == "regex"})


# ---------------------------------------------------------------- rendering
def word_text(opt, wd, paths):
    if wd[0] == "hosts":
        return expr_text(wd[1])
    if wd[0] == "excl":
        # inside -w every term needs its own '-'; inside -x every word of the argument is an exclusion
        return b",".join((b"-" if opt == "w" else b"") + term_text(t) for t in wd[1])
    if wd[0] == "file":
        return (b"-" if (wd[1] and opt == "w") else b"") + b"^" + paths[wd[2]]
    if wd[0] == "rawx":
        return (b"-" if opt == "w" else b"") + wd[1]
    pat = wd[2] + (b"/" if wd[3] else b"")
    return (b"-" if (wd[1] and opt == "w") else b"") + b"/" + pat


def render(case, paths):
    """[(opt, arg bytes)]"""
    return [(o, b",".join(word_text(o, wd, paths) for wd in ws)) for o, ws in case["opts"]]


def argv_of(case, paths):
    """the command line; when case['wcollenv'] names a file, that (only) target word is not written as -w ^file: the file
    reaches pdsh through the WCOLL variable instead (see env_of)"""
    out = []
    key = case.get("wcollenv")
    for o, ws in case["opts"]:
        ws2 = [wd for wd in ws if not (key is not None and wd[0] == "file" and not wd[1] and wd[2] == key)]
        if not ws2:
            continue
        out += ["-" + o, b",".join(word_text(o, wd, paths) for wd in ws2)]
    return out


def env_of(case, paths):
    key = case.get("wcollenv")
    return {} if key is None else {"WCOLL": paths[key]}


def model_line(case, paths, variant, table):
    """the case for ocaml/excl_runner.ml; table: {pat: (compiles, [matching hosts])}"""
    files = ";".join("%s=%s" % (hexs(paths[k]), ",".join(hexs(expr_text(e)) for e in lines))
                     for k, lines in sorted(case["files"].items()) if lines is not None) or "."
    items = ",".join("%s%s" % (o, hexs(a)) for o, a in render(case, paths))
    tbl = ";".join("%s:%d:%s" % (hexs(p), 1 if c else 0, vlib.hexlist(hs)) for p, (c, hs) in sorted(table.items())) or "."
    return "run %s %s %s %s" % (variant, files, items, tbl)


# ---------------------------------------------------------------- generators
PFX = [b"foo", b"f", b"n", b"bar", b"foo1-ib", b"f1", b"node-", b"a1b"]
TWIN_SFX = [b"", b"", b"", b"-ib", b"x"]


def g_range(r, small=True, pad=True):
    lo = r.choice([0, 1, 1, 2, 5, 8, 9, 10, 11, 19, 98, 99, 100]) if small else r.range(0, 3000)
    span = r.weighted([(0, 5), (1, 3), (2, 3), (3, 2), (r.range(4, 12), 1)])
    w = r.weighted([(0, 6), (2, 2), (3, 1)]) if pad else 0
    lo_t = b"%0*d" % (w, lo)
    if span == 0 and r.chance(2, 3):
        return (lo_t, None)
    return (lo_t, b"%0*d" % (r.choice([0, w]), lo + span))


def g_ranges(r, small=True):
    return [g_range(r, small) for _ in range(r.weighted([(1, 6), (2, 2), (3, 1)]))]


def g_term(r, two=True):
    k = r.weighted([("plain", 4), ("br", 5), ("br2", 2 if two else 0)])
    p = r.choice(PFX)
    if k == "plain":
        n = r.choice([b"", b"1", b"01", b"10", b"2", b"12", b"012", b"3", b"1-ib", b"100"])
        return ("plain", p + n) if p + n else ("plain", b"x")
    if k == "br":
        return ("br", p, g_ranges(r), r.choice(TWIN_SFX))
    return ("br2", p, [g_range(r) for _ in range(r.range(1, 2))], r.choice([b"-", b"-r", b"c"]),
            [g_range(r) for _ in range(r.range(1, 2))], r.choice([b"", b"", b"-ib"]))


def g_expr(r, two=True, nmax=3):
    return [g_term(r, two) for _ in range(r.weighted([(1, 5), (2, 3), (nmax, 1)]))]


def twins_of(r, name):
    """names that look like `name` but are other hosts"""
    m = re.match(rb"^(.*?)(\d+)([^\d]*)$", name)
    out = [name + b"0", name + b"-ib", name[:-1] if len(name) > 1 else name + b"q"]
    if m:
        p, d, s = m.groups()
        out += [p + b"0" + d + s, p + d + b"0" + s, p + (d.lstrip(b"0") or b"0") + s, p + d[:-1] + s if len(d) > 1 else p + d + d + s]
    return [x for x in out if x and x != name]


REGEX_TEMPLATES = [b"1$", b"[0-9]$", b"^f", b"^foo", b"o[0-9]", b"1|3", b"-ib", b"^(foo|bar)[12]$", b".", b"x*", b"[0-9]+$",
                   b"0[0-9]", b"^[a-z]+[0-9]$", b"r", b"2", b"[13579]$", b"^n", b"ib$", b"1-", b"^$", b"oo+1", b"(1|2)0?$"]
BAD_REGEX = [b"(", b"a)b(", b"*a("]   # no unbalanced [ : list_split would glue the following words to it


def g_exclusion_expr(r, names):
    """an exclusion aimed at the targets: exact names, ranges over them, twins that must NOT match"""
    k = r.weighted([("name", 5), ("twin", 4), ("range", 3), ("free", 2)])
    if names and k == "name":
        return [("plain", r.choice(names)) for _ in range(r.range(1, 3))]
    if names and k == "twin":
        return [("plain", r.choice(twins_of(r, r.choice(names))))]
    if names and k == "range":
        m = re.match(rb"^(.*?)(\d+)$", r.choice(names))
        if m:
            p, d = m.groups()
            lo = max(0, int(d) - r.range(0, 2))
            w = r.choice([0, len(d)])
            return [("br", p, [(b"%0*d" % (w, lo), b"%d" % (lo + r.range(0, 3)))], b"")]
    return g_expr(r, two=r.chance(1, 3), nmax=2)


def g_case(r, two=True, nfiles=2):
    """a command line with 1-3 target words, 0-3 exclusions, 0-2 regexes in one to four options"""
    case = {"files": {}, "opts": []}
    tw = []
    for _ in range(r.weighted([(1, 4), (2, 4), (3, 2)])):
        if r.chance(1, 5) and nfiles:
            key = "t%d" % len(case["files"])
            case["files"][key] = [g_expr(r, two, 2) for _ in range(r.range(0, 4))]
            tw.append(("file", False, key))
        else:
            e = g_expr(r, two)
            if r.chance(1, 4) and tw and tw[-1][0] == "hosts":       # overlap: repeat part of an earlier word
                e = e + [r.choice(tw[-1][1])]
            tw.append(("hosts", e))
    names = []
    for w in tw:
        names += expr_names(w[1]) if w[0] == "hosts" else [n for e in case["files"][w[2]] for n in expr_names(e)]
    others = []
    for _ in range(r.weighted([(0, 2), (1, 5), (2, 3), (3, 1)])):
        if r.chance(1, 5) and nfiles:
            key = "x%d" % len(case["files"])
            case["files"][key] = [g_exclusion_expr(r, names) for _ in range(r.range(0, 4))]
            others.append(("file", True, key))
        else:
            others.append(("excl", g_exclusion_expr(r, names)))
    for _ in range(r.weighted([(0, 5), (1, 4), (2, 1)])):
        pat = r.choice(BAD_REGEX) if r.chance(1, 40) else r.choice(REGEX_TEMPLATES)
        others.append(("regex", r.chance(1, 2), pat, r.chance(4, 5)))
    case["opts"] = arrange(r, tw, others)
    if len(tw) == 1 and tw[0][0] == "file" and case["files"].get(tw[0][2]) and r.chance(2, 3):
        case["wcollenv"] = tw[0][2]          # the targets come from the WCOLL variable; exclusions and filters still apply
    return case


def arrange(r, tw, others):
    """distribute the words over options: target words keep their relative order, the others go anywhere;
    exclusions/regexes land either in a -w (with '-') or in a -x"""
    seq = list(tw)
    for o in others:
        seq.insert(r.below(len(seq) + 1), o)
    opts = []
    for wd in seq:
        kind = "w"
        if wd[0] == "excl" or (wd[0] in ("file", "regex") and wd[1]):
            kind = r.choice(["w", "x"])
        if opts and opts[-1][0] == kind and r.chance(1, 2):
            opts[-1][1].append(wd)
        else:
            opts.append((kind, [wd]))
    return opts


def permutations_of(case, limit=720):
    """every arrangement of the words of a (small) case that keeps the target words in order;
    each word in an option of its own (the -w/-x choice of the original is kept)"""
    words = [(o, wd) for o, ws in case["opts"] for wd in ws]
    is_t = lambda wd: wd[0] == "hosts" or (wd[0] == "file" and not wd[1])
    out, seen = [], set()
    for perm in itertools.permutations(range(len(words))):
        t_idx = [i for i in perm if is_t(words[i][1])]
        if t_idx != sorted(t_idx):
            continue
        c = {"files": case["files"], "opts": [(words[i][0], [words[i][1]]) for i in perm]}
        key = repr(c["opts"])
        if key not in seen:
            seen.add(key)
            out.append(c)
        if len(out) >= limit:
            break
    return out


def big_exclusion_case(r, n, shape, pad=0):
    """an exclusion FILE of n names; shape: 'unrelated' (ranged form ~ 8 bytes per name), 'run' (one range),
    'sparse' (one prefix, odd numbers)"""
    if shape == "unrelated":
        xs = [b"h%05dx" % (7 * i) for i in range(n)]
        if n and pad:
            xs[-1] = b"h" + b"9" * (5 + pad) + b"x"
    elif shape == "sparse":
        # one prefix, numbers that never adjoin: the ranged form of the whole file is one long bracket list
        xs = [b"h%d" % (2 * i + 1) for i in range(n)]
    else:
        xs = [b"foo%d" % i for i in range(1, n + 1)]
    lines = [[("plain", x)] for x in xs]
    keep = [b"a1", b"h00003x", b"foo0"] if shape != "sparse" else [b"a1", b"h2", b"h%d" % (2 * n)]
    hit = [xs[i] for i in sorted({0, len(xs) // 2, len(xs) - 1})] if xs else []
    tw = [("hosts", [("plain", x)]) for x in keep[:1] + hit + keep[1:] + hit[:1]]
    case = {"files": {"big": lines}, "opts": []}
    other = ("file", True, "big")
    case["opts"] = arrange(r, tw, [other])
    return case


def long_word_case(r, n, how):
    """one bracketed exclusion word naming n odd numbers (its text is about 4n bytes): -x WORD or -w -WORD"""
    top = 2 * n + 2
    rs = [(b"%d" % a, b"%d" % min(top, a + 15999)) for a in range(1, top + 1, 16000)]        # no single range above MAX_RANGE hosts
    tw = [("hosts", [("br", b"n", rs, b"")]), ("hosts", [("plain", b"zz")])]
    word = ("excl", [("br", b"n", [(b"%d" % (2 * k + 1), None) for k in range(n)], b"")])
    return {"files": {}, "opts": [("w", tw), (how, [word])]}


def raw_exclusion_case(r, text, how):
    """an exclusion word that is not a host expression (unbalanced bracket, ...), given as -x TEXT or -w -TEXT"""
    tw = [("hosts", [("br", b"foo", [(b"1", b"4")], b"")]), ("hosts", [("plain", b"zz")])]
    return {"files": {}, "opts": [("w", tw), (how, [("rawx", text)])]}


def ranged_len_unrelated(n, pad):
    return 0 if n == 0 else 8 * n - 1 + pad


# ---------------------------------------------------------------- JSON
def _enc(x):
    if isinstance(x, bytes):
        return {"b": x.decode("latin-1")}
    if isinstance(x, (list, tuple)):
        return [_enc(y) for y in x]
    if isinstance(x, dict):
        return {"d": {k: _enc(v) for k, v in x.items()}}
    return x


def _dec(x):
    if isinstance(x, dict) and "b" in x:
        return x["b"].encode("latin-1")
    if isinstance(x, dict) and "d" in x:
        return {k: _dec(v) for k, v in x["d"].items()}
    if isinstance(x, list):
        return tuple(_dec(y) for y in x)
    return x


def to_json(case):
    j = {"files": _enc(case["files"]), "opts": _enc(case["opts"])}
    if case.get("wcollenv") is not None:
        j["wcollenv"] = case["wcollenv"]
    return j


def from_json(j):
    def fix_expr(e):
        return [tuple(list(t[:2]) + [fix_rs(x) if isinstance(x, tuple) else x for x in t[2:]]) for t in e]

    def fix_rs(rs):
        return [tuple(x) for x in rs]
    files = {k: (None if v is None else [fix_expr(e) for e in v]) for k, v in _dec(j["files"]).items()}
    opts = []
    for o, ws in _dec(j["opts"]):
        nws = []
        for wd in ws:
            if wd[0] in ("hosts", "excl"):
                nws.append((wd[0], fix_expr(wd[1])))
            else:
                nws.append(tuple(wd))
        opts.append((o, nws))
    out = {"files": files, "opts": opts}
    if j.get("wcollenv") is not None:
        out["wcollenv"] = j["wcollenv"]
    return out


def short(case, paths=None):
    paths = paths or {k: ("<%s>" % k).encode() for k in case["files"]}
    s = " ".join("-%s '%s'" % (o, a.decode("latin-1")) for o, a in render(case, paths))
    return s if len(s) < 400 else s[:400] + "..."
