"""'args' engine: the real pdsh binary rebuilt out of tree from /repo's current sources with a scratch
module directory (exec module built into it), run as ordinary processes."""
import os, subprocess, shutil
import vlib

REPO = vlib.REPO
SRCS = [os.path.join(REPO, "src/pdsh", f + ".c") for f in ("main", "dsh", "mod", "rcmd", "opt", "privsep", "pcp_server", "pcp_client", "testcase", "wcoll", "cbuf")] + \
       [os.path.join(REPO, "src/common", f + ".c") for f in ("err", "fd", "hostlist", "list", "pipecmd", "split", "xmalloc", "xpoll", "xstring")]


class Real:
    def __init__(self, ctx, san=False, tag="real", extra_mods=(), null_exec=False):
        self.ctx = ctx
        d = os.path.join(ctx.scratch, tag)
        os.makedirs(os.path.join(d, "mods"), exist_ok=True)
        os.makedirs(os.path.join(d, "bin"), exist_ok=True)
        self.dir = d
        self.mods = os.path.join(d, "mods")
        cfg = os.path.join(d, "cfg.c")
        open(cfg, "w").write('char *pdsh_version = "pdsh-verif"; char *pdsh_module_dir = "%s/mods";\n' % d)
        inc = ["-DHAVE_CONFIG_H", "-D" + vlib.GUARD, "-I" + REPO, "-I" + REPO + "/src/pdsh", "-I" + REPO + "/src/common", "-w", "-g", "-O1"]
        sanf = ["-fsanitize=address,undefined", "-fno-sanitize-recover=all"] if san else []
        self.inc, self.sanf = inc, sanf
        self.exe = os.path.join(d, "bin", "pdsh")
        rc, out = vlib.sh(["gcc"] + inc + sanf + [cfg] + SRCS + ["-rdynamic", "-ldl", "-lpthread", "-o", self.exe])
        if rc:
            raise vlib.BuildError("real pdsh build:\n" + out[-4000:])
        for link in ("pdcp", "rpdcp"):
            os.symlink("pdsh", os.path.join(d, "bin", link))
        if null_exec:
            self.build_module(os.path.join(vlib.VERIF, "harness", "nullrcmd.c"), "execcmd")
        else:
            self.build_module(os.path.join(REPO, "src/modules/execcmd.c"), "execcmd")
        for src, name in extra_mods:
            self.build_module(src, name)

    def build_module(self, src, name, defs=(), mapfile=None):
        mapfile = mapfile or os.path.join(REPO, "tests/test-modules/version.map")
        rc, out = vlib.sh(["gcc", "-shared", "-fPIC"] + self.inc + self.sanf + list(defs) + [src, "-Wl,--version-script=" + mapfile,
                           "-o", os.path.join(self.mods, name + ".so")])
        if rc:
            raise vlib.BuildError("module build %s:\n%s" % (name, out[-3000:]))

    def run(self, args, prog="pdsh", env=None, stdin=None, timeout=20, cwd=None, extra_fds=0, nofile=None, closed_stdin=False):
        """extra_fds: the process starts with that many additional open (inheritable) descriptors, so that every descriptor it
        opens itself has a high number"""
        e = {"PATH": "/usr/bin:/bin", "HOME": "/root", "ASAN_OPTIONS": "detect_leaks=0", "LANG": "C"}
        if env:
            e.update(env)
        held = []
        if extra_fds:
            for _ in range(extra_fds):
                fd = os.open("/dev/null", os.O_RDONLY)
                os.set_inheritable(fd, True)
                held.append(fd)
        def pre():
            if nofile:
                import resource
                resource.setrlimit(resource.RLIMIT_NOFILE, (nofile, nofile))
            if closed_stdin:
                os.close(0)          # started like a daemon: descriptor 0 is free, the first one pdsh opens gets it
        try:
            p = subprocess.run([os.path.join(self.dir, "bin", prog)] + list(args), env=e, input=stdin, stdout=subprocess.PIPE,
                               stderr=subprocess.PIPE, timeout=timeout, cwd=cwd, close_fds=not extra_fds,
                               preexec_fn=pre if (nofile or closed_stdin) else None)
            return p.returncode, p.stdout, p.stderr
        except subprocess.TimeoutExpired as ex:
            return -999, ex.stdout or b"", ex.stderr or b""
        finally:
            for fd in held:
                os.close(fd)
