"""'mod' engine (C17): the real pdsh program rebuilt out of tree from the tree under test, pointed at generated
module directories filled with generated tiny modules (harness/mod_template.c), run as root, as an ordinary
user and set-uid; plus the encoder for the extracted model's line protocol.

Observable behaviour only: which files were mapped (ELF constructor marker), `pdsh -L` (module list order,
which file each entry came from, Active flag), the order of init() calls, the option string printed by
opt_register's own debug message at every refused registration, and which module an option is dispatched to.
"""
import os, re, json, shutil, subprocess, hashlib, threading, stat
from concurrent.futures import ThreadPoolExecutor
import vlib, realeng

REPO = vlib.REPO
TPL = os.path.join(vlib.VERIF, "harness", "mod_template.c")
NOBODY, OTHER, STRANGER = 65534, 1234, 4321
DECOY_ID = 99


def modkey(m):
    return json.dumps([m["type"], m["name"], m["prio"], m["pers"], m["initrc"], m["opts"]], sort_keys=True)


class Engine:
    def __init__(self, ctx):
        self.ctx = ctx
        os.chmod(ctx.scratch, 0o755)           # the unprivileged runs must be able to traverse it
        self.root = os.path.join(ctx.scratch, "mod")
        for d in ("bin/plain", "bin/wrap", "bin/alt", "bin/suid", "cache", "cases", "marks"):
            os.makedirs(os.path.join(self.root, d), exist_ok=True)
        os.chmod(os.path.join(self.root, "marks"), 0o1777)
        self.inc = ["-DHAVE_CONFIG_H", "-D" + vlib.GUARD, "-I" + REPO, "-I" + REPO + "/src/pdsh", "-I" + REPO + "/src/common", "-w", "-g", "-O1"]
        cfg = os.path.join(vlib.VERIF, "harness", "mod_cfg.c")
        wrap = os.path.join(vlib.VERIF, "harness", "mod_readdir_wrap.c")
        jobs = [("plain", [cfg], []), ("wrap", [cfg, wrap], ["-Wl,--wrap=readdir", "-Wl,--wrap=readdir64"])]
        errs = []

        def build(j):
            tag, extra, flags = j
            exe = os.path.join(self.root, "bin", tag, "pdsh")
            rc, out = vlib.sh(["gcc"] + self.inc + extra + realeng.SRCS + flags + ["-rdynamic", "-ldl", "-lpthread", "-o", exe])
            if rc:
                errs.append("real pdsh build (%s):\n%s" % (tag, out[-4000:]))
        with ThreadPoolExecutor(2) as ex:
            list(ex.map(build, jobs))
        if errs:
            raise vlib.BuildError(errs[0])
        plain = os.path.join(self.root, "bin", "plain", "pdsh")
        for tag, mode in (("alt", 0o755), ("suid", 0o4755)):
            exe = os.path.join(self.root, "bin", tag, "pdsh")
            shutil.copy(plain, exe)
            os.chown(exe, OTHER, OTHER)
            os.chmod(exe, mode)
        for tag in ("plain", "wrap", "alt", "suid"):
            os.symlink("pdsh", os.path.join(self.root, "bin", tag, "pdcp"))
        self.base = self._base_options()
        self.lock = threading.Lock()
        self.fix = {}
        self.ncompiled = 0
        # decoy directory: a secure directory with one module; loading it means "the other directory was used"
        self.decoy_mod = {"type": "misc", "name": "decoy", "prio": 100, "pers": 3, "initrc": 0, "opts": []}
        self.decoy = os.path.join(self.root, "decoy")
        os.makedirs(self.decoy)
        self.ensure_fixtures([self.decoy_mod])
        shutil.copy(self.fixture(self.decoy_mod), os.path.join(self.decoy, "decoy.so"))
        self.seq = 0

    def _base_options(self):
        """GEN_ARGS + DSH_ARGS / PCP_ARGS as the preprocessor sees them in opt.c"""
        rc, out = vlib.sh(["gcc", "-E", "-dM"] + self.inc + [os.path.join(REPO, "src/pdsh/opt.c")])
        d = dict(re.findall(r'#define\s+(GEN_ARGS|DSH_ARGS|PCP_ARGS)\s+"([^"]*)"', out))
        if len(d) != 3:
            raise vlib.BuildError("GEN_ARGS/DSH_ARGS/PCP_ARGS not found in opt.c")
        return {"pdsh": d["GEN_ARGS"] + d["DSH_ARGS"], "pdcp": d["GEN_ARGS"] + d["PCP_ARGS"]}

    # ---------- fixtures ----------
    def fixture(self, m):
        return self.fix[modkey(m)]

    def ensure_fixtures(self, mods):
        todo = {}
        for m in mods:
            k = modkey(m)
            if k not in self.fix and k not in todo:
                todo[k] = m
        errs = []

        def comp(item):
            k, m = item
            out = os.path.join(self.root, "cache", hashlib.sha1(k.encode()).hexdigest()[:16] + ".so")
            o = "".join("{ '%s', %s, \"d\", %d, (optFunc) opt_cb }," % (c, '"arg"' if a else "NULL", p) for c, a, p in m["opts"])
            defs = ['-DMOD_TYPE="%s"' % m["type"], '-DMOD_NAME="%s"' % m["name"], "-DMOD_PRIO=(%d)" % m["prio"], "-DMOD_PERS=%d" % m["pers"],
                    "-DMOD_INITRC=(%d)" % m["initrc"], "-DMOD_OPTS=" + o]
            rc, txt = vlib.sh(["gcc", "-shared", "-fPIC"] + self.inc + defs + [TPL, "-Wl,--version-script=" + os.path.join(REPO, "tests/test-modules/version.map"),
                               "-ldl", "-o", out])
            if rc:
                errs.append("fixture build failed:\n" + txt[-2000:])
            return k, out
        with ThreadPoolExecutor(vlib.NPROC) as ex:
            for k, out in ex.map(comp, list(todo.items())):
                self.fix[k] = out
        self.ncompiled += len(todo)
        if errs:
            raise vlib.BuildError(errs[0])

    # ---------- a second file system whose root directory has the inode number of "/" ----------
    def ensure_mount(self):
        """<root>/ins (mode 0777, no sticky bit) / mnt = a small ext2 file system: its root directory has inode 2, like "/" on
        an ext file system, so only the device number tells the two apart.  Returns the mount point or None (no privilege)."""
        with self.lock:
            if hasattr(self, "mnt"):
                return self.mnt
            self.mnt = None
            ins = os.path.join(self.root, "ins")
            mnt = os.path.join(ins, "mnt")
            img = os.path.join(self.root, "fs.img")
            try:
                os.makedirs(mnt, exist_ok=True)
                with open(img, "wb") as fh:
                    fh.truncate(96 << 20)        # sparse; room and inodes for every mounted case of a thorough run at once
                if subprocess.run(["mke2fs", "-q", "-F", "-N", "200000", img], capture_output=True, timeout=60).returncode != 0:
                    return None
                if subprocess.run(["mount", "-o", "loop", img, mnt], capture_output=True, timeout=60).returncode != 0:
                    return None
                import atexit
                atexit.register(self.unmount)
                os.chown(mnt, 0, 0); os.chmod(mnt, 0o755)
                os.makedirs(os.path.join(mnt, "cases"), exist_ok=True)
                os.chown(ins, 0, 0); os.chmod(ins, 0o777)
                if os.stat(mnt).st_ino != os.stat("/").st_ino:
                    self.ctx.notes.append("second file system: its root inode %d differs from that of / (%d)" % (os.stat(mnt).st_ino, os.stat("/").st_ino))
                self.mnt = mnt
            except (OSError, subprocess.SubprocessError):
                self.mnt = None
            return self.mnt

    def unmount(self):
        m = getattr(self, "mnt", None)
        if m:
            subprocess.run(["umount", "-l", m], capture_output=True)
            self.mnt = None

    # ---------- a case on disk ----------
    def materialize(self, case):
        """create the directory chain and the entries of one case; returns (moddir, case root)"""
        with self.lock:
            self.seq += 1
            n = self.seq
        base = os.path.join(self.root, "cases")
        if case.get("mounted"):
            m = self.ensure_mount()
            if m:
                base = os.path.join(m, "cases")
        croot = os.path.join(base, "c%d" % n)
        try:
            os.mkdir(croot)
        except OSError:
            # the second file system is full: this case is run on the first one (its "mounted" flag no longer applies)
            case["mounted"] = False
            croot = os.path.join(self.root, "cases", "c%d" % n)
            os.mkdir(croot)
        p = croot
        dirs = []
        for i, (owner, mode) in enumerate(case["chain"]):
            p = os.path.join(p, "d%d" % i)
            os.mkdir(p)
            dirs.append((p, owner, mode))
        D = p
        for f in case["files"]:
            path = os.path.join(D, f["fname"])
            k = f["kind"]
            if k == "mod":
                shutil.copyfile(self.fixture(f["mod"]), path)
            elif k == "text":
                open(path, "w").write("this is not a shared object\n")
            elif k == "dir":
                os.mkdir(path)
            elif k == "dangling":
                os.symlink("no-such-target", path)
                continue
            os.chown(path, f["owner"], f["owner"])
            os.chmod(path, f["mode"])
        for path, owner, mode in reversed(dirs):
            os.chown(path, owner, owner)
            os.chmod(path, mode)
        return D, croot

    @staticmethod
    def stat_chain(D):
        """what _path_permissions_ok will see: D, D/.., D/../.. ... up to the root directory"""
        r = os.stat("/")
        out, p = [], D
        while True:
            st = os.stat(p)
            out.append([1 if stat.S_ISDIR(st.st_mode) else 0, st.st_uid, stat.S_IMODE(st.st_mode)])
            if (st.st_ino, st.st_dev) == (r.st_ino, r.st_dev) or len(out) > 64:
                return out
            p = p + "/.."

    @staticmethod
    def stat_entries(D, names):
        """stat() of the entries in enumeration order: [name, reg, owner, mode] (a failing stat = not regular)"""
        out = []
        for nm in names:
            try:
                st = os.stat(os.path.join(D, nm))
                out.append([nm, 1 if stat.S_ISREG(st.st_mode) else 0, st.st_uid, stat.S_IMODE(st.st_mode)])
            except OSError:
                out.append([nm, 0, 0, 0])
        return out

    # ---------- running the real program ----------
    def run(self, case, D, args, mark):
        who = case["run_as"]
        variant = "wrap" if case.get("order") is not None else ("suid" if who == "suid" else ("alt" if case.get("alt", 0) == OTHER else "plain"))
        exe = os.path.join(self.root, "bin", variant, case["prog"])
        env = {"PATH": "/usr/bin:/bin", "HOME": "/", "LANG": "C", "C17_MARK": mark}
        sel = case.get("dirsel", "builtin")
        if sel == "builtin":
            env["C17_BUILTIN_DIR"] = D
        elif sel == "env":
            env["C17_BUILTIN_DIR"] = self.decoy
            env["PDSH_MODULE_DIR"] = D
            if case.get("padlen"):
                # the same directory written with "/." components up to a length near PATH_MAX: the walk up its ancestors
                # runs out of room for "/.." before it has seen them all
                k = max(0, (case["padlen"] - len(D)) // 2)
                env["PDSH_MODULE_DIR"] = D + "/." * k
        else:
            env["C17_BUILTIN_DIR"] = D
            env["PDSH_MODULE_DIR"] = self.decoy
        if case.get("order") is not None:
            env["C17_ORDER"] = ",".join(case["order"])
        fa = []
        if case["forced"]:
            s = ",".join(case["forced"])
            if case.get("forced_via", "M") == "env":
                env["PDSH_MISC_MODULES"] = s
            else:
                fa = ["-M", s]
        cmd = [exe] + fa + list(args)
        cwd, look = "/", None
        lk = case.get("lookup")
        if lk:
            # started by bare name through PATH: an earlier element of PATH (empty, ".", a relative or an absolute name) is a
            # directory holding something called like the program that exec passes over - a file without execute permission
            # or a directory - owned by a third party.  The program that runs is still the one in bin/<variant>.
            with self.lock:
                self.seq += 1
                look = os.path.join(self.root, "look%d" % self.seq)
            os.makedirs(os.path.join(look, "sub"))
            os.chmod(look, 0o755); os.chmod(os.path.join(look, "sub"), 0o755)
            where = os.path.join(look, "sub") if lk["elem"] == "rel" else look
            dec = os.path.join(where, case["prog"])
            if lk["kind"] == "dir":
                os.mkdir(dec); os.chmod(dec, 0o755)
            else:
                open(dec, "w").write("#!/bin/sh\necho not the program\n")
                # file700: executable, but only by its owner - exec run by anybody else passes over it just the same
                os.chmod(dec, 0o700 if lk["kind"] == "file700" else 0o644)
            os.chown(dec, lk["owner"], lk["owner"])
            elem = {"": "", ".": ".", "rel": "sub", "abs": look}[lk["elem"]]
            env["PATH"] = elem + ":" + os.path.dirname(exe) + ":/usr/bin:/bin"
            cwd = look
            # through env(1): its execvp passes over what it may not execute and goes on along PATH, as a shell does
            # (setpriv's own exec falls back to /bin/sh on such a file)
            cmd = ["env", case["prog"]] + fa + list(args)
        if who in ("nobody", "suid"):
            cmd = ["setpriv", "--reuid=%d" % NOBODY, "--regid=%d" % NOBODY, "--clear-groups"] + cmd
        open(mark, "w").close()
        os.chmod(mark, 0o666)
        try:
            p = subprocess.run(cmd, env=env, stdout=subprocess.PIPE, stderr=subprocess.PIPE, timeout=30, cwd=cwd)
            rc, o, e = p.returncode, p.stdout.decode("latin-1"), p.stderr.decode("latin-1")
        except subprocess.TimeoutExpired:
            rc, o, e = -999, "", "TIMEOUT"
        if look:
            shutil.rmtree(look, ignore_errors=True)
        m = open(mark).read()
        return rc, o, e, m

    def _mark(self):
        with self.lock:
            self.seq += 1
            return os.path.join(self.root, "marks", "m%d" % self.seq)

    def observe(self, case, D):
        """canonical observation of one case: dict(status, opened, mods, inits, conf) with FILE NAMES as identities"""
        mark = self._mark()
        rc, o, e, m = self.run(case, D, ["-L", "-d"], mark)
        obs = {"rc": rc, "disp": {}, "raw": {"stdout": o[-1500:], "stderr": e[-1500:], "marker": m[-600:]}}
        if "Couldn't load any pdsh modules" in e:
            obs["status"] = "REFUSED"
        elif "no modules found" in e:
            obs["status"] = "NOMODULES"
        elif rc == 0 and re.search(r"^\d+ modules? loaded:", o, re.M):
            obs["status"] = "LOADED"
        else:
            obs["status"] = "OTHER rc=%s %s" % (rc, e[-300:].replace("\n", " | "))
        ml = [l.split(" ") for l in m.split("\n") if l]
        obs["opened"] = [x[1] for x in ml if x[0] == "L"]
        obs["inits"] = [x[1] for x in ml if x[0] == "I"]
        obs["mods"] = [[fn, 1 if act == "yes" else 0] for fn, act in re.findall(r"^Module: [^\n]*\nAuthor: [^\n]*\nDescr:  ([^\n]*)\nActive: (yes|no)$", o, re.M)]
        obs["conf"] = [[ord(c), s] for c, s in re.findall(r"Option (.) in use by a previously loaded module\.\n[^\n]*Module options currently in use are: ([^\n]*)\n", e, re.S)]
        try:
            os.unlink(mark)
        except OSError:
            pass
        return obs

    def observe_disp(self, case, D, probes_with_arg, status):
        """which module (file name) handles -<letter>: None = usage error"""
        mark = self._mark()
        disp = {}
        for c, witharg in probes_with_arg:
            rc2, o2, e2, m2 = self.run(case, D, ["-" + c] + (["ARG"] if witharg else []) + ["-L"], mark)
            got = [x for x in (l.split(" ") for l in m2.split("\n") if l) if x[0] == "O"]
            if rc2 == 0 and len(got) == 1 and int(got[0][2]) == ord(c):
                disp[c] = got[0][1]
            elif not got and rc2 == 1 and ("Usage:" in e2 or status in ("REFUSED", "NOMODULES")):
                disp[c] = None
            else:
                disp[c] = "ODD rc=%s got=%s %s" % (rc2, got, e2[-200:].replace("\n", " | "))
        try:
            os.unlink(mark)
        except OSError:
            pass
        return disp

    def cleanup_case(self, croot):
        shutil.rmtree(croot, ignore_errors=True)


# ---------- model line protocol ----------
def model_line(orig, who, pers, base, forced, probes, chain, entries, mods_by_name, ids):
    """entries: [name, reg, owner, mode] in enumeration order; mods_by_name: name -> mod dict (what dlsym would find) or None;
    ids: name -> small integer"""
    def hx(s):
        return vlib.hexs(s.encode("latin-1"))

    def fm(nm):
        m = mods_by_name.get(nm)
        if m is None:
            return "_"
        os_ = "+".join("%d:%d:%d" % (ord(c), 1 if a else 0, p) for c, a, p in m["opts"]) or "."
        return "~".join([hx(m["type"]), hx(m["name"]), str(m["prio"]), str(m["pers"]), "1" if m["initrc"] >= 0 else "0", os_])
    ch = ",".join("%d/%d/%d" % tuple(c) for c in chain) or "."
    fl = " ".join("%d/%d/%d/%d/%s" % (ids[nm], reg, owner, mode, fm(nm)) for nm, reg, owner, mode in entries)
    return "load %d %d %d %d %d %s %s %s %s %s" % (1 if orig else 0, who[0], who[1], who[2], pers, hx(base), vlib.hexlist([f.encode("latin-1") for f in forced]),
                                                  vlib.hexs("".join(probes).encode("latin-1")), ch, fl)


def parse_model(line, names):
    """model answer -> the same canonical dict as Engine.observe (ids mapped back to file names)"""
    w = line.split(" ")
    if w[0] not in ("REFUSED", "NOMODULES", "LOADED"):
        return {"status": "MODEL " + line[:200]}
    d = dict(x.split("=", 1) for x in w[1:])

    def lst(s):
        return [] if s == "." else s.split(",")
    obs = {"status": w[0]}
    obs["opened"] = [names[int(i)] for i in lst(d["opened"])]
    obs["inits"] = [names[int(i)] for i in lst(d["inits"])]
    obs["mods"] = [[names[int(x.split(":")[0])], int(x.split(":")[1])] for x in lst(d["mods"])]
    obs["conf"] = [[int(x.split(":")[1]), vlib.unhex(x.split(":")[2]).decode("latin-1")] for x in lst(d["conf"])]
    obs["regs"] = [[names[int(x.split(":")[0])], int(x.split(":")[1]), int(x.split(":")[2])] for x in lst(d["regs"])]
    obs["opts"] = vlib.unhex(d["opts"]).decode("latin-1")
    obs["disp"] = {chr(int(x.split(":")[0])): (None if x.split(":")[1] == "_" else names[int(x.split(":")[1])]) for x in lst(d["disp"])}
    return obs
