"""Common machinery for the per-property checks (see DESIGN.md section 2).

build -> prove -> correspond -> oracle -> search -> classify.
"""
import os, sys, re, json, time, hashlib, shutil, subprocess, tempfile, fcntl, atexit, signal

VERIF = os.path.dirname(os.path.dirname(os.path.abspath(__file__)))
REPO = os.environ.get("VERIF_REPO", "/repo")
COQ = os.path.join(VERIF, "coq")
OUTDIR = os.environ.get("VERIF_OUT", VERIF)   # evidence/ and replays/ go here (mutation trials redirect it)
GUARD = "CHAOS_PDSH_VERIF"
NPROC = os.cpu_count() or 4

sys.path.insert(0, os.path.join(VERIF, "tools"))
import gen_params  # noqa: E402

MASK = (1 << 64) - 1


class Rng:
    """splitmix64; every random choice of a check derives from VERIF_SEED through this."""

    def __init__(self, seed, stream=""):
        h = hashlib.sha256(("%d/%s" % (seed, stream)).encode()).digest()
        self.s = int.from_bytes(h[:8], "little")

    def next(self):
        self.s = (self.s + 0x9E3779B97F4A7C15) & MASK
        z = self.s
        z = ((z ^ (z >> 30)) * 0xBF58476D1CE4E5B9) & MASK
        z = ((z ^ (z >> 27)) * 0x94D049BB133111EB) & MASK
        return z ^ (z >> 31)

    def below(self, n):
        return self.next() % n if n > 0 else 0

    def range(self, a, b):
        """inclusive"""
        return a + self.below(b - a + 1)

    def chance(self, num, den):
        return self.below(den) < num

    def choice(self, seq):
        return seq[self.below(len(seq))]

    def shuffle(self, lst):
        for i in range(len(lst) - 1, 0, -1):
            j = self.below(i + 1)
            lst[i], lst[j] = lst[j], lst[i]
        return lst

    def weighted(self, pairs):
        tot = sum(w for _, w in pairs)
        r = self.below(tot)
        for v, w in pairs:
            if r < w:
                return v
            r -= w
        return pairs[-1][0]


def hexs(b):
    if isinstance(b, str):
        b = b.encode("latin-1")
    return b.hex() if b else "-"


def unhex(h):
    return b"" if h in ("-", "") else bytes.fromhex(h)


def hexlist(l):
    return ",".join(hexs(x) for x in l) if l else "."


def unhexlist(s):
    return [] if s == "." else [unhex(x) for x in s.split(",")]


def sh(cmd, timeout=600, cwd=None, env=None, input=None):
    e = dict(os.environ)
    if env:
        e.update(env)
    try:
        p = subprocess.run(cmd, shell=isinstance(cmd, str), cwd=cwd, env=e, input=input,
                           stdout=subprocess.PIPE, stderr=subprocess.STDOUT, timeout=timeout)
        return p.returncode, p.stdout.decode("utf-8", "replace")
    except subprocess.TimeoutExpired as ex:
        out = ex.stdout.decode("utf-8", "replace") if ex.stdout else ""
        return 124, out + "\n[timeout after %ss]" % timeout


class Lock:
    """advisory lock on the shared coq build directory; gives up waiting after `patience` seconds
    (a runaway build elsewhere must not stall every check) and then proceeds unlocked"""

    def __init__(self, path, patience=40):
        self.path, self.patience = path, patience

    def __enter__(self):
        self.f = open(self.path, "w")
        t0 = time.time()
        self.locked = False
        while True:
            try:
                fcntl.flock(self.f, fcntl.LOCK_EX | fcntl.LOCK_NB)
                self.locked = True
                break
            except OSError:
                if time.time() - t0 > self.patience:
                    break
                time.sleep(0.5)
        return self

    def __exit__(self, *a):
        if self.locked:
            fcntl.flock(self.f, fcntl.LOCK_UN)
        self.f.close()


FORBIDDEN = re.compile(r"\b(Admitted|admit|Axiom|Axioms|Parameter|Parameters|Conjecture|Conjectures|Admit Obligations)\b|Unset\s+Guard|bypass_check|type-in-type|impredicative-set|Unset\s+Positivity|Unset\s+Universe")


def strip_coq_comments(text):
    out, depth, i = [], 0, 0
    while i < len(text):
        if text.startswith("(*", i):
            depth += 1
            i += 2
        elif text.startswith("*)", i) and depth > 0:
            depth -= 1
            i += 2
        else:
            if depth == 0:
                out.append(text[i])
            i += 1
    return "".join(out)


class Ctx:
    def __init__(self, prop, tier, seed):
        self.prop, self.tier, self.seed = prop, tier, seed
        self.t0 = time.time()
        self.scratch = tempfile.mkdtemp(prefix="pv-%s-" % prop, dir=os.environ.get("VERIF_SCRATCH", "/var/tmp"))
        atexit.register(self.cleanup)
        self.params = {}
        self.unlocated = []
        self.violations = []      # dicts
        self.known_hits = []      # (id, text)
        self.notes = []
        self.proof = {}
        self.known = load_known()
        self.quiet = False

    def cleanup(self):
        shutil.rmtree(self.scratch, ignore_errors=True)

    def rng(self, stream):
        return Rng(self.seed, "%s/%s" % (self.prop, stream))

    def log(self, *a):
        print("[%s %6.1fs]" % (self.prop, time.time() - self.t0), *a, flush=True)

    # ---------- step 1: params ----------
    def gen_params(self):
        with Lock(os.path.join(COQ, ".lock")):
            self.params, self.unlocated, changed = gen_params.generate(REPO)
        if self.unlocated:
            self.log("params not located in source (defaults used):", ",".join(self.unlocated))
        return changed

    # ---------- step 2: prove ----------
    def coq_makefile(self):
        """(re)generate coq/Makefile from the _CoqProject lines whose files exist (a listed but
        not yet written file must not break every other target)"""
        live_coq_project()

    def coq_make(self, targets, timeout=1500):
        """full .vo build of the given targets (never -vos)"""
        with Lock(os.path.join(COQ, ".lock")):
            self.coq_makefile()
            rc, out = sh(["make", "-k", "-j%d" % NPROC, "COQC=timeout 900 coqc"] + list(targets), cwd=COQ, timeout=timeout)
        return rc, out

    def coq_closure(self, vfile):
        """.v files the given file depends on (transitively), by parsing Require lines"""
        seen, todo = [], [vfile]
        while todo:
            f = todo.pop()
            if f in seen or not os.path.exists(os.path.join(COQ, f)):
                continue
            seen.append(f)
            txt = strip_coq_comments(open(os.path.join(COQ, f)).read())
            for m in re.finditer(r"From\s+PV\s+Require\s+(?:Import\s+|Export\s+)?(.*?)\.(?:\s|$)", txt, re.S):
                for mod in m.group(1).split():
                    todo.append(mod.replace(".", "/") + ".v")
        return seen

    def prove(self, extra_targets=()):
        """Build Props/Properties_<ID>.vo (and what it needs), scan for forbidden
        constructs, parse Print Assumptions.  Returns dict; never raises on a
        failed proof (that is a result)."""
        pid = self.prop
        vfile = "Props/Properties_%s.v" % pid
        res = {"file": vfile, "ok": False, "theorems": [], "assumptions": {}, "forbidden": [],
               "obligations": 0, "discharged": 0, "failed": [], "log_tail": ""}
        vo = vfile + "o"
        # always recompile the property file itself so that Print Assumptions is re-printed
        try:
            os.unlink(os.path.join(COQ, vo))
        except OSError:
            pass
        t = time.time()
        rc, out = self.coq_make([vo] + list(extra_targets))
        res["build_s"] = round(time.time() - t, 1)
        res["log_tail"] = out[-3000:]
        closure = self.coq_closure(vfile)
        res["closure"] = closure
        nthm = 0
        for f in closure:
            txt = strip_coq_comments(open(os.path.join(COQ, f)).read())
            for m in FORBIDDEN.finditer(txt):
                res["forbidden"].append("%s: %s" % (f, m.group(0)))
            nthm += len(re.findall(r"^\s*(?:Local\s+|Global\s+)?(?:Theorem|Lemma|Corollary|Example|Fact|Proposition|Remark)\s", txt, re.M))
        res["obligations"] = nthm
        ptxt = strip_coq_comments(open(os.path.join(COQ, vfile)).read())
        res["theorems"] = re.findall(r"^\s*Theorem\s+([A-Za-z0-9_']+)", ptxt, re.M)
        # which .vo of the closure exist (discharged = lemmas in files that compiled)
        missing = [f for f in closure if not os.path.exists(os.path.join(COQ, f + "o"))]
        res["failed"] = missing
        if rc == 0 and not missing:
            res["ok"] = True
            res["discharged"] = nthm
        else:
            done = 0
            for f in closure:
                if f not in missing:
                    txt = strip_coq_comments(open(os.path.join(COQ, f)).read())
                    done += len(re.findall(r"^\s*(?:Local\s+|Global\s+)?(?:Theorem|Lemma|Corollary|Example|Fact|Proposition|Remark)\s", txt, re.M))
            res["discharged"] = done
            m = re.search(r'File "\./([^"]+)", line (\d+)[^\n]*\n(Error:[^\n]*(?:\n[^\n]+){0,6})', out)
            if m:
                res["first_error"] = {"file": m.group(1), "line": int(m.group(2)), "text": m.group(3)[:600]}
        # re-run coqc on the property file alone so that only ITS Print Assumptions output is parsed
        if rc == 0 and not missing:
            with Lock(os.path.join(COQ, ".lock")):
                rc2, out = sh(["coqc", "-Q", ".", "PV", "-w", "-notation-overridden,-deprecated-hint-without-locality,-deprecated-syntactic-definition", vfile], cwd=COQ, timeout=900)
            if rc2 != 0:
                res["ok"] = False
                res["log_tail"] = out[-3000:]
        # Print Assumptions blocks: "Closed under the global context" or "Axioms:\n name : type"
        blocks = re.split(r"\n(?=Closed under the global context|Axioms:)", out)
        assum = []
        for b in blocks:
            if b.startswith("Closed under the global context"):
                assum.append([])
            elif b.startswith("Axioms:"):
                names = re.findall(r"^([A-Za-z_][A-Za-z0-9_'.]*)\s*:", b[len("Axioms:"):], re.M)
                assum.append(names)
        for i, th in enumerate(res["theorems"]):
            if i < len(assum):
                res["assumptions"][th] = assum[i]
        if res["forbidden"]:
            res["ok"] = False
        # thorough tier: re-check the compiled library closure with the independent checker
        if self.tier == "thorough" and res["ok"] and not os.environ.get("VERIF_NO_COQCHK"):
            t = time.time()
            rc3, out3 = sh(["coqchk", "-o", "-silent", "-Q", ".", "PV", "PV.Props.Properties_%s" % pid], cwd=COQ, timeout=3000)
            res["coqchk_s"] = round(time.time() - t, 1)
            m = re.search(r"\* Axioms:(.*?)\n\s*\n\* Constants/Inductives relying on type-in-type:(.*?)\n\s*\n\* Constants/Inductives relying on unsafe \(co\)fixpoints:(.*?)\n\s*\n\* Inductives whose positivity is assumed:(.*?)\n", out3 + "\n", re.S)
            if rc3 != 0 or not m:
                res["ok"] = False
                res["coqchk"] = "FAILED: " + out3[-800:]
                res["first_error"] = {"file": vfile, "line": 0, "text": "coqchk rejected the compiled development: " + out3[-400:]}
            else:
                res["coqchk"] = {"axioms": " ".join(m.group(1).split()), "type_in_type": " ".join(m.group(2).split()),
                                 "unsafe_fixpoints": " ".join(m.group(3).split()), "assumed_positivity": " ".join(m.group(4).split())}
                if any(v != "<none>" for k, v in res["coqchk"].items() if k != "axioms"):
                    res["ok"] = False
        self.proof = res
        return res

    # ---------- step 3: builds ----------
    def build_runner(self, engine, model_mod):
        """compile the extracted model <model_mod>.ml(i) (written by coqc into coq/) with
        ocaml/prelude.ml and ocaml/<engine>_runner.ml; returns the executable path"""
        bdir = os.path.join(self.scratch, "ocaml-" + engine)
        os.makedirs(bdir, exist_ok=True)
        # make sure the extracted model is current (Params.v may have changed)
        for fn in sorted(os.listdir(os.path.join(COQ, "Extract"))):
            if fn.endswith(".v") and ('"%s.ml"' % model_mod) in open(os.path.join(COQ, "Extract", fn)).read():
                rc, out = self.coq_make(["Extract/" + fn + "o"])
                if rc != 0:
                    raise BuildError("extraction of the model failed (Extract/%s):\n%s" % (fn, out[-3000:]))
        for ext in (".ml", ".mli"):
            shutil.copy(os.path.join(COQ, model_mod + ext), bdir)
        pre = open(os.path.join(VERIF, "ocaml", "prelude.ml")).read().replace("MODEL", model_mod.capitalize())
        run = open(os.path.join(VERIF, "ocaml", engine + "_runner.ml")).read()
        with open(os.path.join(bdir, "runner.ml"), "w") as f:
            f.write(pre + "\n" + run)
        exe = os.path.join(bdir, "runner")
        rc, out = sh(["ocamlfind", "ocamlopt", "-O2" if False else "-inline", "20", "-w", "-a",
                      model_mod + ".mli", model_mod + ".ml", "runner.ml", "-o", exe], cwd=bdir, timeout=600)
        if rc != 0:
            raise RuntimeError("ocaml build failed:\n" + out[-3000:])
        return exe

    def cc(self, srcs, out, flags=(), san=True, libs=(), cc="gcc", timeout=600):
        exe = os.path.join(self.scratch, out)
        cmd = [cc, "-g", "-O1", "-DHAVE_CONFIG_H", "-D" + GUARD, "-I" + REPO, "-I" + os.path.join(VERIF, "harness"),
               "-I" + os.path.join(REPO, "src", "common"), "-I" + os.path.join(REPO, "src", "pdsh"), "-w"]
        if san:
            cmd += ["-fsanitize=address,undefined", "-fno-sanitize-recover=all", "-fno-omit-frame-pointer"]
        cmd += list(flags) + list(srcs) + ["-o", exe] + list(libs)
        rc, o = sh(cmd, timeout=timeout)
        if rc != 0:
            raise BuildError("C build failed (%s):\n%s" % (out, o[-4000:]))
        return exe

    # ---------- step 4: running line-protocol processes ----------
    def run_lines(self, cmd, cases, timeout_per_case=10.0, env=None, crash_tag="CRASH", max_line=64 << 20, max_hangs=12):
        """feed cases (list of str) to a line-protocol process; returns list of result lines.
        If the process dies at case k, result k is 'CRASH <reason>'; if it produces no answer
        within timeout_per_case seconds (or floods its output) result k is 'HANG ...'; the
        process is then restarted on the remaining cases."""
        import threading, select
        results = [None] * len(cases)
        start = 0
        nhang = 0
        e = dict(os.environ)
        e.setdefault("ASAN_OPTIONS", "detect_leaks=0:abort_on_error=0:allocator_may_return_null=1:hard_rss_limit_mb=6000")
        e.setdefault("UBSAN_OPTIONS", "print_stacktrace=0")
        if env:
            e.update(env)
        while start < len(cases):
            chunk = cases[start:]
            data = ("\n".join(chunk) + "\n").encode()
            errf = tempfile.TemporaryFile(dir=self.scratch)
            p = subprocess.Popen(cmd, stdin=subprocess.PIPE, stdout=subprocess.PIPE, stderr=errf, env=e)

            def feed():
                try:
                    p.stdin.write(data)
                    p.stdin.close()
                except Exception:
                    pass
            th = threading.Thread(target=feed, daemon=True)
            th.start()
            fd = p.stdout.fileno()
            buf = b""
            n = 0
            last = time.time()
            reason = None
            while n < len(chunk):
                rl, _, _ = select.select([fd], [], [], 1.0)
                if rl:
                    d = os.read(fd, 1 << 20)
                    if not d:
                        break
                    buf += d
                    while True:
                        k = buf.find(b"\n")
                        if k < 0:
                            break
                        line = buf[:k].decode("latin-1")
                        buf = buf[k + 1:]
                        if line.startswith("DIAG "):
                            continue
                        if n < len(chunk):
                            results[start + n] = line
                            n += 1
                            last = time.time()
                    if len(buf) > max_line:
                        reason = "HANG output-flood"
                        break
                elif time.time() - last > timeout_per_case:
                    reason = "HANG timeout"
                    break
            if n >= len(chunk):
                try:
                    p.kill()
                except Exception:
                    pass
                p.wait()
                errf.close()
                break
            if reason:
                p.kill()
                p.wait()
            else:
                try:
                    p.wait(timeout=20)
                except subprocess.TimeoutExpired:
                    p.kill(); p.wait()
                errf.seek(0)
                errtxt = errf.read(200000).decode("latin-1", "replace")
                reason = "%s %s" % (crash_tag, summarize_crash(errtxt, p.returncode))
            errf.close()
            if reason == "HANG timeout" and crash_tag == "MODEL-CRASH" and not getattr(self, "_in_retry", False):
                # the extracted model was too slow for this case (a loaded machine, a quadratic corner): once more, alone and
                # patiently, before its silence is reported as a disagreement
                self._in_retry = True
                try:
                    again = self.run_lines(cmd, [chunk[n]], timeout_per_case=min(900.0, timeout_per_case * 6), env=env, crash_tag=crash_tag, max_line=max_line)
                finally:
                    self._in_retry = False
                reason = again[0] if again and again[0] is not None else reason
            results[start + n] = reason
            start = start + n + 1
            if reason.startswith("HANG"):
                nhang += 1
                if nhang >= max_hangs:
                    # the process under test hangs again and again: enough evidence, do not spend 10 s on every further case
                    for k in range(start, len(cases)):
                        results[k] = "HANG not-run (the process hung on %d earlier cases of this batch)" % nhang
                    break
        return results

    # ---------- step 7: classify / report ----------
    def known_finding(self, fid, text):
        if fid not in [k for k, _ in self.known_hits]:
            self.known_hits.append((fid, text))

    def is_known(self, fid):
        for k in self.known:
            if k.get("id") == fid and k.get("property") == self.prop and k.get("status") == "finding":
                return k
        return None

    def violation(self, kind, case, expected=None, observed=None, detail=None, theorem=None,
                  correspondence=None, engine=None, command=None):
        """kind: 'input' | 'schedule' | 'no-failing-input-found'"""
        rec = {"property": self.prop, "kind": kind, "engine": engine, "case": case, "expected": expected,
               "observed": observed, "detail": detail, "theorem": theorem, "correspondence": correspondence,
               "seed": self.seed, "tier": self.tier,
               "command": command or ("./check %s --replay <this file>" % self.prop)}
        h = hashlib.sha1(json.dumps(rec, sort_keys=True, default=str).encode()).hexdigest()[:10]
        path = os.path.join(OUTDIR, "replays", "%s-%s.json" % (self.prop, h))
        os.makedirs(os.path.dirname(path), exist_ok=True)
        with open(path, "w") as f:
            json.dump(rec, f, indent=1, default=str)
        rec["path"] = path
        self.violations.append(rec)
        return rec

    def finish(self, coverage, assumptions, level="proof"):
        """print KNOWN-FINDING / VIOLATION lines, write evidence, return exit status"""
        for fid, text in self.known_hits:
            print("KNOWN-FINDING: property=%s %s [%s]" % (self.prop, text, fid))
        # order: concrete inputs first
        vio = sorted(self.violations, key=lambda r: r["kind"] == "no-failing-input-found")
        shown = vio[:5]
        have_input = any(v["kind"] != "no-failing-input-found" for v in vio)
        for v in shown:
            if v["kind"] == "no-failing-input-found":
                if have_input:
                    continue
                print("VIOLATION property=%s replay=%s no-failing-input-found" % (self.prop, v["path"]))
            else:
                print("VIOLATION property=%s replay=%s" % (self.prop, v["path"]))
        ev = {
            "property_id": self.prop,
            "tier": self.tier,
            "seed": self.seed,
            "level": level,
            "coverage": coverage,
            "assumptions": assumptions,
            "wall_s": round(time.time() - self.t0, 2),
            "violations": len(vio),
            "known_findings_hit": [k for k, _ in self.known_hits],
            "params": self.params,
            "params_unlocated": self.unlocated,
            "notes": self.notes,
        }
        os.makedirs(os.path.join(OUTDIR, "evidence"), exist_ok=True)
        with open(os.path.join(OUTDIR, "evidence", self.prop + ".json"), "w") as f:
            json.dump(ev, f, indent=1, default=str)
        self.log("done: %d violation(s), %d known finding(s), %.1fs" % (len(vio), len(self.known_hits), time.time() - self.t0))
        return 1 if vio else 0


def live_coq_project():
    cp = os.path.join(COQ, "_CoqProject")
    live = os.path.join(COQ, ".CoqProject.live")
    lines = []
    for l in open(cp).read().splitlines():
        t = l.strip()
        if t.endswith(".v") and not t.startswith("-") and not os.path.exists(os.path.join(COQ, t)):
            continue
        lines.append(l)
    text = "\n".join(lines) + "\n"
    old = None
    try:
        old = open(live).read()
    except OSError:
        pass
    mk = os.path.join(COQ, "Makefile")
    if old != text or not os.path.exists(mk):
        with open(live, "w") as f:
            f.write(text)
        rc, out = sh("coq_makefile -f .CoqProject.live -o Makefile", cwd=COQ)
        if rc != 0:
            raise RuntimeError("coq_makefile failed: " + out)


class BuildError(Exception):
    pass


def summarize_crash(errtxt, rc):
    m = re.search(r"ERROR: AddressSanitizer: ([a-zA-Z\-]+)", errtxt)
    if m:
        fn = re.search(r"#\d+ 0x[0-9a-f]+ in ([A-Za-z0-9_]+) [^\n]*(?:hostlist|cbuf|pcp|dsh|opt|wcoll|pipecmd|list|mod)", errtxt)
        return "asan:%s%s" % (m.group(1), (":" + fn.group(1)) if fn else "")
    m = re.search(r"runtime error: ([^\n]{0,80})", errtxt)
    if m:
        return "ubsan:" + m.group(1).replace(" ", "_")
    if rc is not None and rc < 0:
        return "signal:%d" % (-rc)
    return "exit:%s" % rc


def load_known():
    p = os.path.join(VERIF, "KNOWN_FINDINGS.json")
    try:
        return json.load(open(p)).get("findings", [])
    except OSError:
        return []


def proof_coverage(ctx, extra=None):
    """coverage keys for a proof-level evidence file"""
    pr = ctx.proof
    tb = ["Coq 8.16.1 kernel (coqc; vm_compute used for witnesses/sweeps; no native_compute)",
          "axioms declared by this development: none",
          "extraction: ExtrOcamlBasic only (no Extract Constant/Inductive of ours), ocamlfind ocamlopt, ocaml/prelude.ml + runner",
          "tools/gen_params.py (constants only)",
          "correspondence harness and generators (C/Python), sanitizers as fault detectors"]
    for th, ax in pr.get("assumptions", {}).items():
        tb.append("Print Assumptions %s: %s" % (th, "Closed under the global context" if not ax else ", ".join(ax)))
    cov = {
        "obligations": pr.get("obligations", 0),
        "discharged": pr.get("discharged", 0),
        "checker_cmd": "make -C coq Props/Properties_%s.vo (coqc 8.16.1, full .vo build) + grep for Admitted/admit/Axiom/Parameter/Conjecture/Unset Guard" % ctx.prop,
        "trusted_base": tb,
        "theorems": pr.get("theorems", []),
        "proof_files": pr.get("closure", []),
        "proof_build_s": pr.get("build_s"),
        "proof_ok": pr.get("ok", False),
    }
    if pr.get("coqchk") is not None:
        cov["coqchk"] = pr["coqchk"]
        cov["coqchk_s"] = pr.get("coqchk_s")
        tb.append("coqchk -o (independent checker, thorough tier): %s" % (pr["coqchk"],))
    if extra:
        cov.update(extra)
    return cov


def report_proof_break(ctx, have_input):
    """called when the Coq build of the property file failed or a forbidden construct
    appeared; returns True if a proof break was reported"""
    pr = ctx.proof
    if ctx.unlocated and not have_input and not getattr(ctx, "_unlocated_reported", False):
        # a constant the model takes from the source is gone from where the translator reads it: the model ran with a
        # default, so nothing it agreed with is tied to the code any more
        ctx._unlocated_reported = True
        ctx.violation("no-failing-input-found", case=None, theorem="Generated/Params.v",
                      detail="constants the model takes from the source could not be located there (tools/gen_params.py): %s; the model ran with defaults, "
                             "so its agreement with the implementation no longer shows that the property holds" % ", ".join(ctx.unlocated))
    if pr.get("ok"):
        return False
    fe = pr.get("first_error", {})
    what = "forbidden construct: " + "; ".join(pr["forbidden"]) if pr.get("forbidden") else \
        "proof obligation no longer checks: %s line %s: %s" % (fe.get("file"), fe.get("line"), fe.get("text"))
    ctx.log("PROOF BREAK:", what)
    if not have_input:
        ctx.violation("no-failing-input-found", case=None, theorem=pr.get("file"), detail=what + "\n" + pr.get("log_tail", "")[-1500:])
    return True
