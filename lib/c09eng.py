"""'rcmd' engine (C09): who is contacted how, and what text arrives.

Implementation side, all built from vlib.REPO's current sources into the scratch directory:
  * the real pdsh binary (lib/realeng.py) with the real exec module       -> argv seen by harness/c09_argv.c
  * the real pdsh binary with recording transports (harness/c09_recmod.c built under several
    module names, one of them "exec")                                     -> (module, host, users, cmd, rank) per connect
  * harness/c09_fmt_harness.c  (#includes pipecmd.c, ASan)                -> pipecmd_format_arg / cmd_args_create
  * harness/c09_xrcmd_harness.c (#includes xrcmd.c, loopback rsh peer)    -> the request bytes
Model side: ocaml/rcmd_runner.ml over the extraction of Args/Subst.v + Args/Rcmd.v.
S side: the Python functions s_* below, written from the property text."""
import os, re, pwd, subprocess
import vlib, realeng, hlgen
from vlib import hexs, unhex, hexlist, unhexlist

REPO = vlib.REPO
H = os.path.join(vlib.VERIF, "harness")
COMMON = [os.path.join(REPO, "src/common", f + ".c") for f in ("err", "fd", "list", "xmalloc", "xstring", "split")]


def rank_list():
    """the transport preference list of rcmd.c (RCMD_RANK_LIST from config.h, else the literal in rcmd.c)"""
    try:
        m = re.search(r"#define\s+RCMD_RANK_LIST\s+(.*)", open(os.path.join(REPO, "config.h")).read())
    except OSError:
        m = None
    if not m:
        m = re.search(r"#else\s*\n\s*\{([^}]*)NULL\s*\}", open(os.path.join(REPO, "src/pdsh/rcmd.c")).read())
    return [x.encode() for x in re.findall(r'"([^"]*)"', m.group(1))] if m else [b"exec"]


class Eng:
    def __init__(self, ctx, configs=(("A", ("exec", "reca", "recb")), ("B", ("exec", "reca", "ssh", "rsh")))):
        self.ctx = ctx
        self.login = pwd.getpwuid(os.getuid()).pw_name.encode()
        self.rank_list = rank_list()
        # unit harness for the substitution (ASan + UBSan)
        self.fmt = ctx.cc([os.path.join(H, "c09_fmt_harness.c")] + COMMON, "c09_fmt", libs=["-lpthread"])
        # wire harness
        self.xr = ctx.cc([os.path.join(H, "c09_xrcmd_harness.c"), os.path.join(REPO, "src/pdsh/privsep.c"),
                          os.path.join(REPO, "src/common/xpoll.c")] + COMMON, "c09_xrcmd",
                         flags=["-Wl,--wrap=connect"], libs=["-lpthread"])
        # helper printing its argv
        self.helper = os.path.join(ctx.scratch, "c09_argv")
        rc, out = vlib.sh(["gcc", "-O1", "-o", self.helper, os.path.join(H, "c09_argv.c")])
        if rc:
            raise vlib.BuildError("helper build:\n" + out)
        # the real binary with the real exec module
        self.real = realeng.Real(ctx, tag="c09real")
        # the real binary with recording transports only, per configuration of loaded modules
        self.rec = {}
        for tag, mods in configs:
            r = realeng.Real(ctx, tag="c09rec" + tag, null_exec=True)
            for m in mods:
                r.build_module(os.path.join(H, "c09_recmod.c"), "execcmd" if m == "exec" else "rec_" + m, defs=['-DRECNAME="%s"' % m])
            self.rec[tag] = (r, [m.encode() for m in mods])
        self.model = ctx.build_runner("rcmd", "rcmd_model")
        self.nlog = 0

    # ---- line-protocol sides ----
    def run_model(self, cases):
        return self.ctx.run_lines([self.model], cases, env={"OCAMLRUNPARAM": "l=4G"}, crash_tag="MODEL-CRASH")

    def run_fmt(self, cases):
        out = self.ctx.run_lines([self.fmt], cases)
        return ["FAULT " + o if o.startswith("CRASH asan") else o for o in out]

    def run_wire(self, cases):
        return self.ctx.run_lines([self.xr], cases, timeout_per_case=20.0)

    # ---- the real binary ----
    def run_exec(self, pre_args, args, env=None):
        """pdsh <pre_args> helper <args>: returns (rc, {host: [argv lists seen]}, stderr)"""
        rc, o, e = self.real.run(list(pre_args) + [self.helper] + list(args), env=env, timeout=30)
        seen = {}
        for line in o.split(b"\n"):
            m = re.match(rb"^(.*?): ARGV (\d+) (\S+)$", line)
            if m:
                seen.setdefault(m.group(1), []).append(unhexlist(m.group(3).decode()))
        return rc, seen, e

    def run_rec(self, config, argv, env=None):
        """pdsh <argv> with recording transports: returns (rc, [(module, host, luser, ruser, cmd, rank)], stderr)"""
        real, _ = self.rec[config]
        self.nlog += 1
        log = os.path.join(self.ctx.scratch, "rec%d.log" % self.nlog)
        e = {"C09_LOG": log}
        if env:
            e.update(env)
        rc, o, er = real.run(argv, env=e, timeout=30)
        recs = []
        try:
            for line in open(log, "rb").read().split(b"\n"):
                f = line.split()
                if len(f) == 7 and f[0] == b"REC":
                    recs.append((f[1], unhex(f[2].decode()), unhex(f[3].decode()), unhex(f[4].decode()), unhex(f[5].decode()), int(f[6])))
            os.unlink(log)
        except OSError:
            pass
        return rc, recs, er


# ---------------- S: the property, restated ----------------
def s_subst(host, user, rank, arg):
    """%h %u %n %% replaced; every other byte copied; unknown %x kept; a final lone % kept"""
    out, i = b"", 0
    while i < len(arg):
        c = arg[i:i + 1]
        if c == b"%" and i + 1 < len(arg):
            d = arg[i + 1:i + 2]
            if d == b"h":
                out += host
            elif d == b"u":
                out += user
            elif d == b"n":
                out += b"%d" % rank
            elif d == b"%":
                out += b"%"
            else:
                out += b"%" + d
            i += 2
        else:
            out += c
            i += 1
    return out


def s_wire(port, luser, ruser, cmd):
    return (b"" if port is None else b"%d" % port) + b"\0" + luser + b"\0" + ruser + b"\0" + cmd + b"\0"


def word_text(w):
    """w = (type or None, user or None, tree)  -> text of the -w word"""
    ty, us, tree = w
    return (ty + b":" if ty is not None else b"") + (us + b"@" if us is not None else b"") + b" ".join(hlgen.render_word(x) for x in tree)


def s_assign(words, dtype, duser, target):
    """transport and user of the first word carrying a type or a user whose expansion contains the target"""
    for ty, us, tree in words:
        if (ty is not None or us is not None) and target in hlgen.denote(tree):
            return (ty if ty is not None else dtype, us if us is not None else duser)
    return (dtype, duser)


def s_default_type(optR, envR, ranklist, loaded):
    """-R, else PDSH_RCMD_TYPE, else the first loaded transport of the preference list; None = refused"""
    name = optR if optR is not None else envR
    if name is None:
        for n in ranklist:
            if n in loaded:
                name = n
                break
    return name if name is not None and name in loaded else None
