"""'dshbak' engine: the real Perl script from the tree under test run as a process on generated
labelled streams (no option, -c, -d DIR / -f -d DIR); the extracted Coq model of the script;
the C host-list parser (hl harness) and, for a sample, the rebuilt pdsh binary to read the
headers back."""
import os, re, subprocess, shutil, tempfile, zlib
from concurrent.futures import ThreadPoolExecutor
import vlib
from vlib import hexs, unhex, hexlist, unhexlist

DIV = b"-" * 16 + b"\n"
SCRIPT = os.path.join(vlib.REPO, "scripts", "dshbak")


def numkey(name):
    """sortn's key: value of the digits at the end, none = 0"""
    m = re.search(rb"([0-9]*)$", name)
    return int(m.group(1)) if m.group(1) else 0


class Bak:
    def __init__(self, ctx, need_hl=True):
        self.ctx = ctx
        if not os.path.exists(SCRIPT):
            raise vlib.BuildError("scripts/dshbak not found in %s" % vlib.REPO)
        rc, out = vlib.sh(["perl", "-c", SCRIPT])
        if rc != 0:
            raise vlib.BuildError("perl -c scripts/dshbak failed:\n" + out[-2000:])
        self.model = ctx.build_runner("bak", "bak_model")
        self.hl = None
        if need_hl:
            self.hl = ctx.cc([os.path.join(vlib.VERIF, "harness", "hl_harness.c")], "hl_harness_bak",
                             flags=["-D_GNU_SOURCE"], libs=["-lpthread"])
        self.tmp = os.path.join(ctx.scratch, "bakrun")
        os.makedirs(self.tmp, exist_ok=True)
        self.n = 0

    # ---- the script ----
    def run_script(self, mode, stream, idx=0, stale=None):
        """mode: 'normal' | 'coalesce' | 'files' | 'files-f'.  Returns dict(rc, out, err, files).
        In mode 'files' the script is run twice: into a fresh directory and into one where every other host of the first
        result already has a file from an earlier run; the second result is returned if the two differ (a per-host file
        holds exactly that host's lines, whatever was there before)."""
        if mode == "files" and stale is None:
            first = self.run_script(mode, stream, idx, stale=())
            names = sorted(first["files"] or {})
            if first["rc"] != 0 or not names:
                return first
            second = self.run_script(mode, stream, idx, stale=names[::2])
            return first if second["files"] == first["files"] and second["rc"] == first["rc"] else second
        env = {"PATH": "/usr/bin:/bin", "LANG": "C", "LC_ALL": "C", "HOME": "/root"}
        args = ["perl", SCRIPT]
        d = None
        if mode == "coalesce":
            args.append("-c")
        elif mode in ("files", "files-f"):
            d = tempfile.mkdtemp(prefix="d%d-" % idx, dir=self.tmp)
            if mode == "files-f":
                d = os.path.join(d, "new", "dir")
                args += ["-f"]
            for fn in (stale or ()):
                try:
                    with open(os.path.join(os.fsencode(d), fn), "wb") as f:
                        f.write(b"left over from an earlier run\n")
                except OSError:
                    pass
            args += ["-d", d]
        # one stream in three is handed over as two or three file arguments instead of standard input, cut at line ends chosen by
        # a hash of the stream (so a replay cuts at the same places); a piece that is not the last loses its final newline -
        # the script supplies the newline an unterminated last line of any input file lacks, so the result is the same
        inp, fdir = stream, None
        h = zlib.crc32(stream)
        ends = [i + 1 for i in range(len(stream) - 1) if stream[i:i + 1] == b"\n"]
        if h % 3 == 0 and ends:
            k = 1 + (h >> 4) % 2
            cuts = sorted({ends[(h >> (8 + 5 * j)) % len(ends)] for j in range(k)})
            pieces = [stream[a:b] for a, b in zip([0] + cuts, cuts + [len(stream)])]
            fdir = tempfile.mkdtemp(prefix="in%d-" % idx, dir=self.tmp)
            for j, pc in enumerate(pieces):
                if j < len(pieces) - 1 and pc.endswith(b"\n") and not pc.endswith(b"\n\n") and pc != b"\n" and (h >> 3) % 4 != 0:
                    pc = pc[:-1]
                fn = os.path.join(fdir, "part%d.out" % j)
                with open(fn, "wb") as f:
                    f.write(pc)
                args.append(fn)
            inp = b""
        try:
            p = subprocess.run(args, input=inp, stdout=subprocess.PIPE, stderr=subprocess.PIPE, env=env, timeout=60)
            rc, out, err = p.returncode, p.stdout, p.stderr
        except subprocess.TimeoutExpired:
            rc, out, err = -999, b"", b"timeout"
        if fdir:
            shutil.rmtree(fdir, ignore_errors=True)
        files = None
        if d is not None:
            files = {}
            bd = os.fsencode(d)
            if os.path.isdir(bd):
                for fn in os.listdir(bd):
                    try:
                        with open(os.path.join(bd, fn), "rb") as f:
                            files[fn] = f.read()
                    except OSError:
                        files[fn] = None
            shutil.rmtree(os.path.dirname(os.path.dirname(d)) if mode == "files-f" else d, ignore_errors=True)
        return {"rc": rc, "out": out, "err": err, "files": files}

    def run_script_many(self, jobs):
        """jobs: list of (mode, stream); parallel"""
        with ThreadPoolExecutor(max_workers=min(12, vlib.NPROC)) as ex:
            return list(ex.map(lambda a: self.run_script(a[1][0], a[1][1], a[0]), enumerate(jobs)))

    # ---- the model ----
    def run_model(self, cases):
        return self.ctx.run_lines([self.model], cases, env={"OCAMLRUNPARAM": "l=4G"}, crash_tag="MODEL-CRASH",
                                  timeout_per_case=60.0)

    # ---- the C parser: a header read as a pdsh host expression (both bracket passes) ----
    def expand(self, headers):
        """list of header byte strings -> list of (list of names | None on error)"""
        if not headers:
            return []
        res = self.ctx.run_lines([self.hl], ["targets " + hexs(h) for h in headers])
        out = []
        for r in res:
            if r is not None and r.startswith("OK"):
                out.append(unhexlist(r[3:].strip()))
            else:
                out.append(None)
        return out


def parse_q(stdout):
    """names printed by pdsh -Q"""
    lines = stdout.split(b"\n")
    for i, l in enumerate(lines):
        if l.startswith(b"-- Target nodes --"):
            t = lines[i + 1] if i + 1 < len(lines) else b""
            return t.split(b",") if t else []
    return None
