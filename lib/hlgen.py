"""Host-expression syntax trees: generator, renderer, and the specification S
(denote) of property C01, written independently of the code.

tree  = list of words
word  = ("plain", name) | ("br", prefix, [range...], rest)
rest  = ("end",) | ("text", t) | ("br2", mid, [range...], suffix)
range = (lo_text, hi_text or None)    texts are digit strings as typed
"""
MAX_RANGE = 16384


def fmtw(width, n):
    return (b"%0*d" % (width, n))


def range_numbers(rs):
    out = []
    for lo_t, hi_t in rs:
        lo = int(lo_t)
        hi = lo if hi_t is None else int(hi_t)
        w = len(lo_t)
        for n in range(lo, hi + 1):
            out.append(fmtw(w, n))
    return out


def denote_word(w):
    if w[0] == "plain":
        return [w[1]]
    _, p, rs, rest = w
    nums = range_numbers(rs)
    if rest[0] == "end":
        return [p + n for n in nums]
    if rest[0] == "text":
        return [p + n + rest[1] for n in nums]
    _, mid, rs2, sfx = rest
    nums2 = range_numbers(rs2)
    return [p + n + mid + m + sfx for n in nums for m in nums2]


def denote(tree):
    out = []
    for w in tree:
        out += denote_word(w)
    return out


def render_ranges(rs):
    return b",".join(lo if hi is None else lo + b"-" + hi for lo, hi in rs)


def render_word(w):
    if w[0] == "plain":
        return w[1]
    _, p, rs, rest = w
    s = p + b"[" + render_ranges(rs) + b"]"
    if rest[0] == "text":
        s += rest[1]
    elif rest[0] == "br2":
        s += rest[1] + b"[" + render_ranges(rest[2]) + b"]" + rest[3]
    return s


def render(tree, seps):
    """seps: list of separator byte strings, one per gap (len(tree)-1), each non-empty over ', \\t'"""
    out = b""
    for i, w in enumerate(tree):
        if i:
            out += seps[i - 1]
        out += render_word(w)
    return out


# ---- domain D01 (see DESIGN C01): what the theorem covers ----
def in_domain(tree):
    """wf + D01: returns (bool, reason)"""
    for w in tree:
        if w[0] == "plain":
            if not w[1] or len(w[1]) >= 1023:
                return False, "plain word empty or >= 1023 bytes"
            continue
        _, p, rs, rest = w
        allrs = [rs] + ([rest[2]] if rest[0] == "br2" else [])
        for R in allrs:
            if not R or len(R) > 10240:
                return False, "range count"
            for lo_t, hi_t in R:
                lo = int(lo_t)
                hi = lo if hi_t is None else int(hi_t)
                if lo > hi or hi - lo >= MAX_RANGE:
                    return False, "not well-formed range"
                if hi >= 10 ** 15:
                    return False, "number >= 10^15"
        for name in denote_word(w):
            if len(name) >= 4095:
                return False, "name >= 4095 bytes"
    return True, ""


# ---- generator ----
LETTERS = b"abcdefghijklmnopqrstuvwxyzABCXYZ"


def gen_text(r, kinds=("alpha", "alnum", "digits", "empty", "dash", "dot")):
    k = r.choice(kinds)
    n = r.range(1, 6)
    if k == "empty":
        return b""
    if k == "alpha":
        return bytes(r.choice(LETTERS) for _ in range(n))
    if k == "alnum":
        return bytes(r.choice(LETTERS) for _ in range(n)) + bytes(r.choice(b"0123456789") for _ in range(r.range(1, 3)))
    if k == "digits":
        return bytes(r.choice(b"0123456789") for _ in range(r.range(1, 4)))
    if k == "dash":
        return bytes(r.choice(LETTERS) for _ in range(n)) + b"-" + bytes(r.choice(LETTERS + b"0123456789") for _ in range(r.range(1, 3)))
    return bytes(r.choice(LETTERS) for _ in range(n)) + b"." + bytes(r.choice(LETTERS) for _ in range(r.range(1, 3)))


BOUNDARY_LO = [0, 1, 8, 9, 10, 11, 98, 99, 100, 101, 999, 1000, 9999, 10000, 16383, 16384, 99999, 100000,
               (1 << 25) - 2, (1 << 25) - 1, (1 << 25), (1 << 25) + 1, 10 ** 9 - 1, 10 ** 14 - 2]


def gen_range(r, prev=None, big=False):
    """one range; aims at the case splits of the coalescing / width lemmas"""
    mode = r.weighted([("rand", 5), ("boundary", 4), ("adjacent", 4 if prev else 0), ("overlap", 2 if prev else 0),
                       ("repeat", 1 if prev else 0)])
    if mode == "adjacent":
        lo = prev[1] + 1
    elif mode == "overlap":
        lo = r.range(prev[0], prev[1])
    elif mode == "repeat":
        lo = prev[0]
    elif mode == "boundary":
        lo = r.choice(BOUNDARY_LO)
    else:
        lo = r.range(0, 130)
    span = r.weighted([(0, 5), (1, 3), (r.range(2, 12), 5), (r.range(13, 120), 1)])
    if big and r.chance(1, 40):
        span = r.choice([16383, 16382])
    hi = lo + span
    nd = len(str(lo))
    wmode = r.weighted([("natural", 5), ("pad1", 3), ("pad2", 2), ("padhi", 2), ("wide", 1), ("prevw", 3 if prev else 0)])
    if wmode == "natural":
        w = nd
    elif wmode == "pad1":
        w = nd + 1
    elif wmode == "pad2":
        w = nd + 2
    elif wmode == "padhi":
        w = max(nd, len(str(hi)))
    elif wmode == "prevw":
        w = max(nd, prev[2])
    else:
        w = nd + r.range(3, 17)
    lo_t = fmtw(w, lo)
    if span == 0 and r.chance(3, 4):
        hi_t = None
    else:
        hw = len(str(hi)) + r.weighted([(0, 6), (1, 2), (3, 1)])
        hi_t = fmtw(hw, hi)
    return (lo_t, hi_t), (lo, hi, w)


def gen_ranges(r, maxn=5, big=False):
    n = r.weighted([(1, 4), (2, 4), (3, 2), (r.range(4, maxn), 1)])
    out, prev = [], None
    for _ in range(n):
        rg, prev = gen_range(r, prev, big)
        out.append(rg)
    return out


def gen_word(r, prevword=None, big=False):
    k = r.weighted([("plain", 3), ("br", 5), ("brtext", 2), ("br2", 2), ("twin", 2 if prevword else 0), ("casetwin", 1 if prevword else 0)])
    if k == "casetwin":
        # the previous word's prefix with the case of one letter flipped and neighbouring numbers: names differing only in
        # case are different hosts and must never share a bracket
        pw = prevword
        name = pw[1]
        idx = [i for i in range(len(name)) if name[i:i + 1].isalpha()]
        if idx:
            i = r.choice(idx)
            name = name[:i] + name[i:i + 1].swapcase() + name[i + 1:]
        if pw[0] == "br":
            lo_t, hi_t = pw[2][-1]
            hi = int(hi_t if hi_t is not None else lo_t)
            w = len(lo_t)
            span = r.choice([0, 0, 1, 3])
            hi += r.choice([0, 0, 1, 2])       # directly after the previous range, or leaving a gap
            first = (fmtw(w, hi + 1), fmtw(w, hi + 1 + span) if span else None)
            rest = gen_ranges(r, maxn=3, big=big) if r.chance(1, 3) else []
            return ("br", name, [first] + rest, ("end",))
        prevword = ("plain", name)
        k = "twin"
    if k == "twin" and prevword[0] == "br":
        # same prefix again: exercises tail coalescing across words
        return ("br", prevword[1], gen_ranges(r, big=big), ("end",))
    if k == "twin" and prevword[0] == "plain":
        # plain name whose numeric suffix neighbours the previous one
        name = prevword[1]
        i = len(name)
        while i > 0 and name[i - 1:i].isdigit():
            i -= 1
        if i < len(name):
            num = int(name[i:]) + r.choice([1, 1, 0, 2])
            w = len(name) - i + r.choice([0, 0, 1])
            return ("plain", name[:i] + fmtw(w, num))
        return ("plain", name + b"1")
    if k == "plain" or k == "twin":
        t = gen_text(r, ("alpha", "alnum", "digits", "dash", "dot", "alnum"))
        if r.chance(1, 6):
            t += bytes(r.choice(b"0123456789") for _ in range(r.range(7, 10)))  # around MAX_HOST_SUFFIX
        elif r.chance(1, 12) and t and not t[-1:].isdigit():
            # numbers that only differ from small ones above bit 31 / 32 / 63: still names of their own
            t += r.choice([b"2147483649", b"4294967296", b"4294967297", b"4294967299", b"8589934593", b"9223372036854775809", b"18446744073709551617"])
        return ("plain", t)
    p = gen_text(r, ("alpha", "alpha", "alnum", "digits", "empty", "dash"))
    rs = gen_ranges(r, big=big)
    if k == "br":
        return ("br", p, rs, ("end",))
    if k == "brtext":
        return ("br", p, rs, ("text", gen_text(r, ("alpha", "dash", "dot", "alnum", "digits"))))
    mid = gen_text(r, ("alpha", "dash", "empty", "alnum"))
    sfx = gen_text(r, ("empty", "empty", "alpha", "dash"))
    rs2 = gen_ranges(r, maxn=3)
    return ("br", p, rs, ("br2", mid, rs2, sfx))


def gen_tree(r, big=False):
    n = r.weighted([(1, 4), (2, 4), (3, 3), (r.range(4, 6), 2)])
    out, prev = [], None
    for _ in range(n):
        w = gen_word(r, prev, big)
        out.append(w)
        prev = w
    return out


def gen_seps(r, n):
    out = []
    for _ in range(max(0, n - 1)):
        out.append(r.weighted([(b",", 8), (b" ", 2), (b"\t", 1), (b", ", 1), (b",,", 1), (b" ,\t", 1)]))
    return out


def tree_weight(tree):
    """expansion size estimate, to keep cases small"""
    tot = 0
    for w in tree:
        if w[0] == "plain":
            tot += 1
        else:
            def cnt(rs):
                return sum((int(h) if h is not None else int(l)) - int(l) + 1 for l, h in rs)
            c = cnt(w[2])
            if w[3][0] == "br2":
                c *= cnt(w[3][2])
            tot += c
    return tot


def mutate_tree(tree):
    """one-step neighbours (bounds +-1, widths +-1, swap neighbours) used by the search step"""
    out = []
    for i, w in enumerate(tree):
        if w[0] != "br":
            continue
        rs = w[2]
        for j, (lo_t, hi_t) in enumerate(rs):
            lo = int(lo_t)
            hi = lo if hi_t is None else int(hi_t)
            cands = []
            for dlo, dhi, dw in ((1, 0, 0), (-1, 0, 0), (0, 1, 0), (0, -1, 0), (0, 0, 1), (0, 0, -1)):
                nlo, nhi, nw = lo + dlo, hi + dhi, len(lo_t) + dw
                if nlo < 0 or nhi < nlo or nw < len(str(nlo)):
                    continue
                cands.append((fmtw(nw, nlo), None if (hi_t is None and nhi == nlo) else fmtw(len(str(nhi)), nhi)))
            for c in cands:
                nrs = list(rs)
                nrs[j] = c
                nt = list(tree)
                nt[i] = ("br", w[1], nrs, w[3])
                out.append(nt)
        for j in range(len(rs) - 1):
            nrs = list(rs)
            nrs[j], nrs[j + 1] = nrs[j + 1], nrs[j]
            nt = list(tree)
            nt[i] = ("br", w[1], nrs, w[3])
            out.append(nt)
    return out
