"""'out' engine: per-host output path of dsh.c (unit harness) vs extracted model; generators and S-side judges for C05/C06/C08."""
import os
import vlib
from vlib import hexs, unhex

REPO = vlib.REPO
PDSH_SRCS = [os.path.join(REPO, "src/pdsh", f + ".c") for f in ("mod", "rcmd", "opt", "privsep", "pcp_server", "pcp_client", "testcase", "wcoll", "cbuf")] + \
            [os.path.join(REPO, "src/common", f + ".c") for f in ("err", "fd", "hostlist", "list", "pipecmd", "split", "xmalloc", "xpoll", "xstring")]
MARKER = b"XXRETCODE:"


class Out:
    def __init__(self, ctx):
        self.ctx = ctx
        cfg = os.path.join(ctx.scratch, "cfg.c")
        with open(cfg, "w") as f:
            f.write('char *pdsh_version = "verif"; char *pdsh_module_dir = "/nonexistent";\n')
        self.impl = ctx.cc([os.path.join(vlib.VERIF, "harness", "dsh_unit_harness.c"), cfg] + PDSH_SRCS, "dsh_unit",
                           flags=["-fno-builtin", "-rdynamic", "-Wl,--wrap=read,--wrap=close,--wrap=fputs"], libs=["-ldl", "-lpthread"])
        self.model = ctx.build_runner("dsh", "dsh_model")

    def run_impl(self, cases, keep=False):
        return self.ctx.run_lines([self.impl] + (["-K"] if keep else []), cases)

    def run_model(self, cases, keep=False):
        # the model is a total function and cannot hang, but it needs 5-7 s for a 128 KiB line (lists of N):
        # give it time on a loaded machine rather than report a timeout as a disagreement
        return self.ctx.run_lines([self.model] + (["-K"] if keep else []), cases, timeout_per_case=300.0,
                                  env={"OCAMLRUNPARAM": "l=4G"}, crash_tag="MODEL-CRASH")


def s_label(host, keep):
    """S: the label of a host (C06): cut at the first dot iff not numeric-leading and domains are not kept"""
    if host[:1].isdigit() or keep:
        return host
    return host.split(b".")[0]


HOSTS = [b"n1", b"node12", b"a", b"ab", b"abc", b"n1.dom.org", b"n1.other", b"10.0.0.7", b"1host.x", b"foo-ib", b"foo", b"foo1", b"x.y", b"h" * 60]


def gen_stream(r, big=False):
    """text output free of NUL; lines of assorted lengths; sometimes no final newline"""
    k = r.weighted([("short", 8), ("tail", 4), ("empty_lines", 2), ("long_line", 2 if big else 1), ("tail8k", 2), ("empty", 1), ("growth", 2)])
    def word(n):
        return bytes(r.choice(b"abcdefghijklmnopqrstuvwxyz0123456789 :%-./") for _ in range(n))
    if k == "empty":
        return b""
    if k == "short":
        return b"".join(word(r.range(0, 30)) + b"\n" for _ in range(r.range(1, 6)))
    if k == "tail":
        return b"".join(word(r.range(0, 30)) + b"\n" for _ in range(r.range(0, 4))) + word(r.range(1, 40))
    if k == "empty_lines":
        return b"".join(r.choice([b"\n", b"\n\n", b"x\n", b" \n"]) for _ in range(r.range(1, 8))) + r.choice([b"", b"z"])
    if k == "long_line":
        n = r.choice([63, 64, 65, 999, 1000, 1001, 2047, 2048, 8190, 8191, 8192, 8193, 20000] + ([131070, 131071, 131072] if big else []))
        return word(3) + b"\n" + bytes([97 + (i % 26) for i in range(n - 1)]) + b"\n" + word(r.range(0, 5))
    if k == "tail8k":
        n = r.choice([8190, 8191, 8192, 8193, 10000, 16382, 16383, 3 * 8191 + 5])
        return word(4) + b"\n" + bytes([65 + (i % 26) for i in range(n)])
    # growth: many lines crossing the 64 -> 1000-multiples growth points
    return b"".join(word(r.choice([10, 63, 64, 65, 200, 500])) + b"\n" for _ in range(r.range(2, 8)))


def gen_chunking(r, s):
    """cut the stream into read chunks; sprinkle EAGAIN; end with EOF"""
    mode = r.weighted([("whole", 2), ("bytes", 2), ("random", 6), ("at_newlines", 2), ("after_newlines", 2)])
    cuts = []
    n = len(s)
    if mode == "whole" or n == 0:
        cuts = []
    elif mode == "bytes" and n <= 400:
        cuts = list(range(1, n))
    elif mode in ("at_newlines", "after_newlines"):
        for i, b in enumerate(s):
            if b == 10:
                cuts.append(i if mode == "at_newlines" else i + 1)
    else:
        k = r.range(1, min(12, max(1, n)))
        cuts = sorted(set(r.range(1, max(1, n - 1)) for _ in range(k)))
    cuts = [c for c in cuts if 0 < c < n]
    items, prev = [], 0
    for c in cuts + [n]:
        if c > prev:
            if r.chance(1, 6):
                items.append("X")
            items.append("A" + hexs(s[prev:c]))
            prev = c
    if r.chance(1, 4):
        items.append("X")
    items.append("E")
    return "/".join(items)


def parse_result(line):
    """'rc=N calls=a,b,c' -> (rc, [bytes...])"""
    f = line.split(" ")
    rc = int(f[0][3:])
    cs = f[1][6:]
    calls = [] if cs == "." else [unhex(x) for x in cs.split(",")]
    return rc, calls


def judge_c05(s, host, labels, keep, calls):
    """payload (label stripped) == stream"""
    L = s_label(host, keep) + b": "
    data = b"".join(calls)
    if not labels:
        return None if data == s else "payload differs from the bytes the remote wrote"
    # strip one label per line record and one for the tail
    out, pos = b"", 0
    while pos < len(data):
        if not data.startswith(L, pos):
            return "record at offset %d does not start with the host's label" % pos
        pos += len(L)
        nl = data.find(b"\n", pos)
        if nl < 0:
            out += data[pos:]
            pos = len(data)
        else:
            out += data[pos:nl + 1]
            pos = nl + 1
    return None if out == s else "payload differs from the bytes the remote wrote (got %d bytes, expected %d)" % (len(out), len(s))


def records(s, L, labels, chunk=8191):
    """S (C06): the records a stream must be emitted as"""
    recs = []
    lines = s.split(b"\n")
    tail = lines.pop()
    for l in lines:
        recs.append((L if labels else b"") + l + b"\n")
    first = True
    while tail:
        recs.append((L if labels and first else b"") + tail[:chunk])
        tail = tail[chunk:]
        first = False
    return recs


def judge_c06(s, host, labels, keep, calls):
    L = s_label(host, keep) + b": "
    exp = records(s, L, labels)
    if calls == exp:
        return None
    for i, (a, b) in enumerate(zip(calls, exp)):
        if a != b:
            return "stdio call %d is %r..., the record must be %r..." % (i, a[:40], b[:40])
    return "number of stdio calls %d, records %d" % (len(calls), len(exp))
