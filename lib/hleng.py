"""hostlist engine: build both sides, run cases"""
import os
import vlib


class HL:
    def __init__(self, ctx):
        self.ctx = ctx
        self.impl = ctx.cc([os.path.join(vlib.VERIF, "harness", "hl_harness.c")], "hl_harness",
                           flags=["-D_GNU_SOURCE"], libs=["-lpthread"])
        self.model = ctx.build_runner("hl", "hl_model")

    def run_impl(self, cases):
        return self.ctx.run_lines([self.impl], cases)

    def run_model(self, cases):
        return self.ctx.run_lines([self.model], cases, env={"OCAMLRUNPARAM": "l=4G"}, crash_tag="MODEL-CRASH")
