(* pcp engine runner: I/O and conversions only.
   case:   sink <check> <dirmode> <ydir> <preserve> <umask> <blksize> <cwd a/b/c in hex comps or .> <dest hex> <stream hex> <tree...>
   tree:   D <mode> <mtime|_> <namehex> <nchildren> child...   |   F <mode> <mtime|_> <namehex> <datahex>
   case:   copy <check> <dirmode> <skip> <preserve> <reverse> <umask> <blksize> <client cwd> <names p,p,..> <suffix hex|_> <server cwd> <dest hex> <tree...>
   answer: OK <END|FAULT|FUEL> R=<A|E<k>,...> T=<op><0|1>:<path>,... REST=<bytes left on input> FS <tree> *)
let z_of_string (s : string) : z =
  if s = "0" then Z0
  else if s.[0] = '-' then (match n_of_decimal (String.sub s 1 (String.length s - 1)) with N0 -> Z0 | Npos p -> Zneg p)
  else (match n_of_decimal s with N0 -> Z0 | Npos p -> Zpos p)
let string_of_z (x : z) : string =
  match x with Z0 -> "0" | Zpos p -> decimal_of_n (Npos p) | Zneg p -> "-" ^ decimal_of_n (Npos p)

let hx (b : n list) = if b = [] then "-" else hex_of_bytes b
let path_of_string (s : string) : n list list =
  if s = "." then [] else List.map bytes_of_hex (String.split_on_char '/' s)
let string_of_path (p : n list list) : string =
  if p = [] then "." else String.concat "/" (List.map hx p)

let mt_of s = if s = "_" then None else Some (z_of_string s)
let mt_to = function None -> "_" | Some z -> string_of_z z

(* recursive descent over the token list *)
let rec parse_node (t : string list) : (n list * node) * string list =
  match t with
  | "F" :: mode :: mt :: nm :: data :: rest ->
    ((bytes_of_hex nm, File (n_of_int (int_of_string mode), mt_of mt, bytes_of_hex data)), rest)
  | "D" :: mode :: mt :: nm :: cnt :: rest ->
    let k = int_of_string cnt in
    let rec kids i acc rest =
      if i = 0 then (List.rev acc, rest)
      else let (e, rest') = parse_node rest in kids (i - 1) (e :: acc) rest' in
    let (es, rest') = kids k [] rest in
    ((bytes_of_hex nm, Dir (n_of_int (int_of_string mode), mt_of mt, es)), rest')
  | _ -> failwith "tree"

let rec print_node (b : Buffer.t) (nm : n list) (nd : node) : unit =
  match nd with
  | File (m, t, d) ->
    Buffer.add_string b (Printf.sprintf " F %d %s %s %s" (int_of_n m) (mt_to t) (hx nm) (hx d))
  | Dir (m, t, es) ->
    Buffer.add_string b (Printf.sprintf " D %d %s %s %d" (int_of_n m) (mt_to t) (hx nm) (List.length es));
    List.iter (fun (k, v) -> print_node b k v) es

let op_char = function OStat -> 's' | OMkdir -> 'm' | OChmod -> 'c' | OOpen -> 'o' | OWrite -> 'w' | OTrunc -> 't' | OUtimes -> 'u'
let err_str = function
  | EVerifydir -> "Ev" | EScrewup w -> "Es" ^ string_of_int (int_of_n w) | EName -> "En" | EBad -> "Eb"
  | EData -> "Ed" | ETrunc -> "Et" | EResp -> "Er" | EUtimes -> "Eu"

let answer (w, r) =
  let b = Buffer.create 4096 in
  Buffer.add_string b "OK ";
  Buffer.add_string b (match r with RetEnd -> "END" | RetFault -> "FAULT" | RetFuel -> "FUEL");
  let reps = replies w in
  Buffer.add_string b " R=";
  Buffer.add_string b (if reps = [] then "." else String.concat "," (List.map (function Ack -> "A" | Err k -> err_str k) reps));
  let ts = List.rev (List.filter_map (function Touch (o, p, ok) -> Some (Printf.sprintf "%c%d:%s" (op_char o) (if ok then 1 else 0) (string_of_path p)) | _ -> None) w.w_log) in
  Buffer.add_string b " T=";
  Buffer.add_string b (if ts = [] then "." else String.concat "," ts);
  Buffer.add_string b (Printf.sprintf " REST=%d FS" (List.length w.w_in));
  print_node b [] w.w_fs;
  Buffer.contents b

let handle (w : string list) : string =
  match w with
  | "sink" :: chk :: dm :: ydir :: pres :: umask :: blk :: cwd :: dest :: stream :: tree ->
    let ((_, root), _) = parse_node tree in
    let cfg = { c_cwd = path_of_string cwd; c_dest = bytes_of_hex dest; c_ydir = (ydir = "1"); c_preserve = (pres = "1");
                c_umask = n_of_int (int_of_string umask); c_blksize = n_of_int (int_of_string blk); c_check = (chk = "1"); c_dirmode = (dm = "1") } in
    answer (sink cfg root (bytes_of_hex stream))
  | "copy" :: chk :: dm :: skip :: pres :: rev :: umask :: blk :: ccwd :: names :: suffix :: scwd :: dest :: tree ->
    (* names: comma-separated paths, each a/b/c in hex components *)
    let ((_, root), _) = parse_node tree in
    let nl = List.map path_of_string (String.split_on_char ',' names) in
    let sfx = if suffix = "_" then None else Some (bytes_of_hex suffix) in
    (match run_copy (chk = "1") (dm = "1") (skip = "1") (pres = "1") (rev = "1") (n_of_int (int_of_string umask)) (n_of_int (int_of_string blk))
             (path_of_string ccwd) nl sfx (path_of_string scwd) (bytes_of_hex dest) root with
     | None -> "NOSOURCE"
     | Some r -> answer r)
  | _ -> "MODEL-BADCASE"
let () = main_loop handle
