(* rcmd engine runner (C09): one case per line, see lib/c09eng.py *)
let opt_hex (s : string) : n list option = if s = "_" then None else Some (bytes_of_hex s)
let hexs (b : n list) = if b = [] then "-" else hex_of_bytes b
let ohexs (b : n list option) = match b with None -> "_" | Some x -> hexs x
let unlist (s : string) : n list list =
  if s = "." then [] else List.map bytes_of_hex (String.split_on_char ',' s)
let pinfo h u r = { p_target = bytes_of_hex h; p_user = bytes_of_hex u; p_rank = n_of_decimal r }
let handle (w : string list) : string =
  match w with
  | ["fmt"; h; u; r; a] ->
    (match format_arg (pinfo h u r) (bytes_of_hex a) with
     | FFault -> "FAULT" | FOk None -> "NULL" | FOk (Some b) -> "OK " ^ hexs b)
  | ["argv"; h; u; r; l] ->
    (match exec_args (pinfo h u r) (unlist l) with
     | FFault -> "FAULT" | FOk l -> "OK " ^ hexlist l)
  | ["cmd"; l] -> (match build_cmd (unlist l) with None -> "NULL" | Some b -> "OK " ^ hexs b)
  | ["wire"; p; lu; ru; c] ->
    let port = if p = "_" then None else Some (n_of_decimal p) in
    "OK " ^ hexlist (xrcmd_writes port (bytes_of_hex lu) (bytes_of_hex ru) (bytes_of_hex c))
  | ["cls"; s] ->
    (match classify (bytes_of_hex s) with
     | Ok wd -> String.concat " " ["OK"; ohexs wd.w_type; ohexs wd.w_user; hexs wd.w_hosts]
     | _ -> "ERR")
  | ["asg"; rl; ld; oR; eR; ol; login; ws; ts] ->
    let st = { s_optR = opt_hex oR; s_envR = opt_hex eR; s_optl = opt_hex ol; s_login = bytes_of_hex login } in
    (match assign (unlist rl) (unlist ld) st (unlist ws) (unlist ts) with
     | Ok l -> "OK " ^ (if l = [] then "." else
         String.concat "," (List.map (fun (((h, m), u), k) ->
           String.concat ":" [hexs h; hexs m; hexs u; decimal_of_n k]) l))
     | _ -> "ERR")
  | _ -> "MODEL-BADCASE"
let () = main_loop handle
