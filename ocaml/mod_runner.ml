(* mod engine runner (C17): I/O and decoding only.
   load <orig> <uid> <euid> <alt> <pers> <basehex> <forced hexlist> <probe letters hex> <chain> <file>...
     chain : . | isdir/owner/mode,...          (module directory first, "/" last)
     file  : id/reg/owner/mode/MOD     MOD : _ | typehex~namehex~prio~pers~initok~OPTS     OPTS : . | letter:arg:pers+...
   dir <uid> <euid> <hasenv>  *)
let ints s = int_of_string s
let nn s = n_of_int (ints s)
let bb s = (s = "1")
let lst sep s = if s = "." || s = "" then [] else String.split_on_char sep s
let ids l = if l = [] then "." else String.concat "," (List.map (fun i -> string_of_int (int_of_n i)) l)

let parse_opt s = match String.split_on_char ':' s with
  | [l; a; p] -> { o_letter = nn l; o_arg = bb a; o_pers = nn p }
  | _ -> failwith "opt"
let parse_mod s = if s = "_" then None else
  match String.split_on_char '~' s with
  | [t; n; pr; pe; ok; os] ->
    Some { m_type = bytes_of_hex t; m_name = bytes_of_hex n; m_prio = z_of_int (ints pr); m_pers = nn pe;
           m_opts = List.map parse_opt (lst '+' os); m_init_ok = bb ok }
  | _ -> failwith "mod"
let parse_file s = match String.split_on_char '/' s with
  | [i; r; o; m; d] -> { f_id = nn i; f_st = { f_reg = bb r; f_owner = nn o; f_mode = nn m }; f_mod = parse_mod d }
  | _ -> failwith "file"
let parse_dir s = match String.split_on_char '/' s with
  | [d; o; m] -> { d_isdir = bb d; d_owner = nn o; d_mode = nn m }
  | _ -> failwith "dir"

let handle (w : string list) : string =
  match w with
  | "load" :: orig :: uid :: euid :: alt :: pers :: base :: forced :: probes :: chain :: files ->
    let cfg = { c_who = { w_uid = nn uid; w_euid = nn euid; w_alt = nn alt }; c_pers = nn pers; c_base = bytes_of_hex base;
                c_forced = List.map bytes_of_hex (lst ',' forced); c_chain = List.map parse_dir (lst ',' chain) } in
    let fl = List.map parse_file files in
    let r = if orig = "1" then load_orig cfg fl else load cfg fl in
    let st = r.r_state in
    let status = (match r.r_status with Refused -> "REFUSED" | NoModules -> "NOMODULES" | Loaded -> "LOADED") in
    let mods = if r.r_modules = [] then "." else
        String.concat "," (List.map (fun (i, _) -> Printf.sprintf "%d:%d" (int_of_n i) (if List.mem i st.s_active then 1 else 0)) r.r_modules) in
    let regs = if st.s_regs = [] then "." else
        String.concat "," (List.map (fun ((i, c), a) -> Printf.sprintf "%d:%d:%d" (int_of_n i) (int_of_n c) (if a then 1 else 0)) st.s_regs) in
    let conf = if st.s_conf = [] then "." else
        String.concat "," (List.map (fun ((i, c), o) -> Printf.sprintf "%d:%d:%s" (int_of_n i) (int_of_n c) (hex_of_bytes o)) st.s_conf) in
    let disp = let ps = bytes_of_hex probes in if ps = [] then "." else
        String.concat "," (List.map (fun c -> Printf.sprintf "%d:%s" (int_of_n c)
                                      (match (if mem c st.s_opts then r_dispatch r c else None) with Some i -> string_of_int (int_of_n i) | None -> "_")) ps) in
    String.concat " " [status; "opened=" ^ ids r.r_opened; "mods=" ^ mods; "inits=" ^ ids st.s_inits;
                       "opts=" ^ hex_of_bytes st.s_opts; "regs=" ^ regs; "conf=" ^ conf; "disp=" ^ disp]
  | ["dir"; uid; euid; hasenv] ->
    let w = { w_uid = nn uid; w_euid = nn euid; w_alt = N0 } in
    if module_dir w (if hasenv = "1" then Some true else None) false then "ENV" else "BUILTIN"
  | _ -> "MODEL-BADCASE"
let () = main_loop handle
