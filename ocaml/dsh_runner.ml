(* "out" engine runner: same protocol as harness/dsh_unit_harness.c; keep-domain mode via argv -K *)
let keepdom = Array.length Sys.argv > 1 && Sys.argv.(1) = "-K"
let script_of (s : string) : fdev list =
  if s = "" then [] else
  List.map (fun it ->
    match it.[0] with
    | 'A' -> Avail (bytes_of_hex (String.sub it 1 (String.length it - 1)))
    | 'E' -> Eof
    | _ -> RdErr) (List.filter (fun x -> x <> "") (String.split_on_char '/' s))
let hexs (b : n list) = if b = [] then "-" else hex_of_bytes b
let handle (w : string list) : string =
  match w with
  | "out" :: which :: lab :: hosthex :: rest ->
    let x = { labels = (lab = "1"); keepdom = keepdom; host = bytes_of_hex hosthex; read_rc = (which = "o") } in
    let (rc, calls) = run_stream x (script_of (match rest with [s] -> s | _ -> "")) in
    "rc=" ^ string_of_int (match rc with Some z -> int_of_z z | None -> 0) ^ " calls=" ^
    (if calls = [] then "." else String.concat "," (List.map hexs calls))
  | ["rc"; h] ->
    let (r, l) = extract_rc (bytes_of_hex h) in
    "rc=" ^ string_of_int (int_of_z r) ^ " line=" ^ hexs l
  | _ -> "MODEL-BADCASE"
let () = main_loop handle
