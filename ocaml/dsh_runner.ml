(* "out" engine runner: same protocol as harness/dsh_unit_harness.c; keep-domain mode via argv -K *)
let keepdom = Array.length Sys.argv > 1 && Sys.argv.(1) = "-K"
let script_of (s : string) : fdev list =
  if s = "" then [] else
  List.map (fun it ->
    match it.[0] with
    | 'A' -> Avail (bytes_of_hex (String.sub it 1 (String.length it - 1)))
    | 'E' -> Eof
    | _ -> RdErr) (List.filter (fun x -> x <> "") (String.split_on_char '/' s))
let hexs (b : n list) = if b = [] then "-" else hex_of_bytes b
let handle (w : string list) : string =
  match w with
  | "out" :: which :: lab :: hosthex :: rest ->
    let x = { labels = (lab = "1"); keepdom = keepdom; host = bytes_of_hex hosthex; read_rc = (which = "o") } in
    let (rc, calls) = run_stream x (script_of (match rest with [s] -> s | _ -> "")) in
    "rc=" ^ string_of_int (match rc with Some z -> int_of_z z | None -> 0) ^ " calls=" ^
    (if calls = [] then "." else String.concat "," (List.map hexs calls))
  | ["rc"; h] ->
    let (r, l) = extract_rc (bytes_of_hex h) in
    "rc=" ^ string_of_int (int_of_z r) ^ " line=" ^ hexs l
  | "disp" :: n :: f :: recheck :: evs ->
    (* trace acceptance for the fanout protocol: events LD WD KD C<i> UD c<i> d<i> l<i> s<i> u<i> SP X *)
    let nn = nat_of_int (int_of_string n) and ff = z_of_int (int_of_string f) and rc = (recheck = "1") in
    let split_tc e = match String.index_opt e ':' with
      | Some k -> (String.sub e 0 k, Some (int_of_string (String.sub e (k + 1) (String.length e - k - 1))))
      | None -> (e, None) in
    let parse e =
      let num () = nat_of_int (int_of_string (String.sub e 1 (String.length e - 1))) in
      match e with
      | "LD" -> ELockD | "WD" -> EWaitD | "KD" -> EWokenD | "UD" -> EUnlockD | "SP" -> ESpur | "X" -> EExit
      | _ -> (match e.[0] with
              | 'C' -> ECreate (num ()) | 'c' -> EConn (num ()) | 'd' -> EDestroy (num ())
              | 'l' -> ELockW (num ()) | 's' -> ESignal (num ()) | 'u' -> EUnlockW (num ())
              | _ -> failwith "event") in
    let rec go s k mx = function
      | [] -> "ACCEPT events=" ^ string_of_int k ^ " peak=" ^ string_of_int mx ^ " tc=" ^ string_of_int (int_of_z s.tc)
      | e0 :: r ->
        let (e, otc) = split_tc e0 in
        (match step nn ff rc s (parse e) with
         | Some s' ->
           (match otc with
            | Some v when v <> int_of_z s'.tc ->
              "REJECT at=" ^ string_of_int k ^ " event=" ^ e0 ^ " threadcount observed " ^ string_of_int v ^ " model " ^ string_of_int (int_of_z s'.tc)
            | _ -> go s' (k + 1) (max mx (int_of_z (inflight s'))) r)
         | None -> "REJECT at=" ^ string_of_int k ^ " event=" ^ e ^ " tc=" ^ string_of_int (int_of_z s.tc)) in
    go (init nn) 0 0 evs
  | "dom" :: optK :: hosts ->
    (* do the labels keep the domain?  dom <K:0/1> <host hex> ... *)
    "keep=" ^ (if domain_in_label (optK = "1") (List.map bytes_of_hex hosts) then "1" else "0")
  | "exit" :: optS :: optk :: hosts ->
    (* the exit status of a scripted run: exit <S:0/1> <k:0/1> <fails:0/1>:<code>:<teardown status> ... *)
    let hl = List.map (fun t -> match String.split_on_char ':' t with
      | [fl; code; drc] -> (fl = "1", (z_of_int (int_of_string code), z_of_int (int_of_string drc)))
      | _ -> failwith ("host " ^ t)) hosts in
    "exit=" ^ string_of_int (int_of_z (run_exit (optS = "1") (optk = "1") hl))
  | _ -> "MODEL-BADCASE"
let () = main_loop handle
