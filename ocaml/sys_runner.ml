(* "sys" runner: trace acceptance for the timed dsh transition system (Dsh/Sys.v).
   case:  sys <n> <fanout> <tconn> <tcmd> <batch 0|1> <behaviours: one of o r h H per target> <t0> <tokens...>
   worker tokens carry the scheduler's worker number (creation order); the runner maps it to the
   target index the model's dispatcher starts next (cancelled slots are skipped by the model). *)
let beh_of c = match c with 'o' -> BOk | 'r' -> BRefuse | 'h' -> BHangConn | 'H' -> BHangRead | _ -> failwith "beh"
let handle (w : string list) : string =
  match w with
  | (("sys" | "sysmp") as mode) :: n :: f :: tcn :: tcm :: bat :: behs :: t0 :: toks ->
    let mp = (mode = "sysmp") in
    let cfg = { ntgt = nat_of_int (int_of_string n); f = z_of_int (int_of_string f); tconn = z_of_int (int_of_string tcn);
                tcmd = z_of_int (int_of_string tcm); batch = (bat = "1");
                behs = List.init (String.length behs) (fun i -> beh_of behs.[i]) } in
    let map : (int, int) Hashtbl.t = Hashtbl.create 16 in
    let split_tc e = match String.index_opt e ':' with
      | Some k -> (String.sub e 0 k, Some (int_of_string (String.sub e (k + 1) (String.length e - k - 1))))
      | None -> (e, None) in
    let num e k = int_of_string (String.sub e k (String.length e - k)) in
    let tgt e k = match Hashtbl.find_opt map (num e k) with Some i -> nat_of_int i | None -> failwith ("unknown worker in " ^ e) in
    let parse s e =
      match e with
      | "LD" -> ELockD | "WD" -> EWaitD | "KD" -> EWokenD | "UD" -> EUnlockD | "X" -> EExit
      | "WW" -> EWdWake | "AI" -> ESigArrive SInt | "AT" -> ESigArrive STstp | "TK" -> ESigTake | "MK" -> ESigMark | "RA" -> ERaise
      | "SL1" -> ELock1S | "SU1" -> EUnlock1S | "XS" -> EExitS | "SL0" -> ELock0S | "SU0" -> EUnlock0S
      | "TI" -> ETick | "SP" -> ESpur
      | _ ->
        (match e.[0] with
         | 'C' -> (match next_target s with
                   | Some i -> Hashtbl.replace map (num e 1) (int_of_nat i); ECreate i
                   | None -> ECreate (nat_of_int 1000000))
         | 'S' -> EStart (tgt e 1) | 'a' -> ELock1 (tgt e 1) | 'b' -> EUnlock1 (tgt e 1) | 'B' -> EConnBegin (tgt e 1)
         | 'o' -> EConnOk (tgt e 1) | 'r' -> EConnRefused (tgt e 1) | 'i' -> EConnIntr (tgt e 1) | 'p' -> EPollIntr (tgt e 1)
         | 'R' -> EReport (tgt e 1) | 't' -> ERSigW (tgt e 1) | 'd' -> EDestroy (tgt e 1) | 'l' -> ELock0 (tgt e 1)
         | 's' -> ESignal (tgt e 1) | 'u' -> EUnlock0 (tgt e 1) | 'K' -> EWdKill (tgt e 1)
         | 'G' -> ERSigS (nat_of_int (num e 1))
         | _ -> failwith ("event " ^ e)) in
    let rec go s k mx = function
      | [] -> "ACCEPT events=" ^ string_of_int k ^ " peak=" ^ string_of_int mx ^ " tc=" ^ string_of_int (int_of_z s.tc)
              ^ " now=" ^ string_of_int (int_of_z s.now)
      | e0 :: r ->
        let (e, otc) = split_tc e0 in
        if mp && e = "TI" && not (calm s) then
          "REJECT at=" ^ string_of_int k ^ " event=TI time advanced while a thread could move (state not calm) now=" ^ string_of_int (int_of_z s.now)
        else if mp && e = "TI" && not (blockedb cfg s) then
          "REJECT at=" ^ string_of_int k ^ " event=TI time advanced although some thread of the model can take a step now=" ^ string_of_int (int_of_z s.now)
        else
        (match step cfg s (parse s e) with
         | Some s' ->
           (match otc with
            | Some v when v <> int_of_z s'.tc ->
              "REJECT at=" ^ string_of_int k ^ " event=" ^ e0 ^ " threadcount observed " ^ string_of_int v ^ " model " ^ string_of_int (int_of_z s'.tc)
            | _ -> go s' (k + 1) (max mx (int_of_z (inflight s'))) r)
         | None -> "REJECT at=" ^ string_of_int k ^ " event=" ^ e ^ " tc=" ^ string_of_int (int_of_z s.tc) ^ " now=" ^ string_of_int (int_of_z s.now)) in
    go (init cfg (z_of_int (int_of_string t0))) 0 0 toks
  | _ -> "MODEL-BADCASE"
let () = main_loop handle
