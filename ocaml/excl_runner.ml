(* C02: whole -w/-x command lines through the extracted model (Args/Exclude.v).
   case:   run <variant> <files> <items> <regex table>
     variant  fixed | orig | v<del_all><expand_first><push>   (push: o = old loop, p = parenthesised, n = names)
     files    .  or  PATHHEX=EXPRHEX,EXPRHEX,...;PATHHEX=...      (the expressions read_wcoll pushes)
     items    wHEX,xHEX,...   in command-line order (w = -w ARG, x = -x ARG)
     table    .  or  PATHEX:C:HOSTHEX,HOSTHEX,...;...  (C = 1 when regcomp accepts the pattern; the hosts
              regexec matches - the bits come from the real libc, harness/c02_regex.c)
   answer: OK <names> D<domain_check>  |  ERRX  |  NOTARGETS  |  FAULT  |  DIVERGES *)
let split_nonempty c s = List.filter (fun x -> x <> "") (String.split_on_char c s)
let parse_list s = if s = "." then [] else List.map bytes_of_hex (String.split_on_char ',' s)

let parse_variant s =
  match s with
  | "fixed" -> fixed
  | "orig" -> original
  | _ ->
    let b c = (c = '1') in
    { v_del_all = b s.[1]; v_expand_first = b s.[2];
      v_push = (match s.[3] with 'o' -> PushOld | 'p' -> PushParen | _ -> PushNames) }

let parse_files s =
  if s = "." then [] else
  List.map (fun e ->
    match String.index_opt e '=' with
    | Some k -> (bytes_of_hex (String.sub e 0 k),
                 (let r = String.sub e (k + 1) (String.length e - k - 1) in if r = "" then [] else parse_list r))
    | None -> failwith "file") (split_nonempty ';' s)

let parse_items s =
  if s = "." then [] else
  List.map (fun e ->
    let h = String.sub e 1 (String.length e - 1) in
    let h = if h = "" then "-" else h in
    match e.[0] with
    | 'w' -> IW (bytes_of_hex h)
    | 'x' -> IX (bytes_of_hex h)
    | _ -> failwith "item") (String.split_on_char ',' s)

let parse_table s =
  if s = "." then [] else
  List.map (fun e ->
    match String.split_on_char ':' e with
    | [p; c; hosts] -> (bytes_of_hex p, (c = "1", parse_list hosts))
    | _ -> failwith "table") (split_nonempty ';' s)

let handle (ws : string list) : string =
  match ws with
  | ["run"; v; files; items; table] ->
    let tbl = parse_table table in
    let compiles p = (try fst (List.assoc p tbl) with Not_found -> failwith "regex-not-in-table") in
    let matches p h = (try List.mem h (snd (List.assoc p tbl)) with Not_found -> failwith "regex-not-in-table") in
    let fl = parse_files files and its = parse_items items in
    (match run compiles matches (parse_variant v) fl its with
     | XOk l -> "OK " ^ hexlist l ^ " D" ^ (if domain_check compiles fl its then "1" else "0")
     | XErrx -> "ERRX"
     | XNoTargets -> "NOTARGETS"
     | XFault _ -> "FAULT"
     | XDiverges -> "DIVERGES")
  | ["split"; h] -> "OK " ^ hexlist (list_split (bytes_of_hex h))
  | _ -> "MODEL-BADCASE"

let () = main_loop handle
