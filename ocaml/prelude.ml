(* Shared prelude for the correspondence runners.  MODEL is replaced by the
   extracted module name at build time.  I/O and hex/decimal conversion only. *)
open MODEL

let rec pos_of_int (i : int) : positive =
  if i = 1 then XH else if i land 1 = 1 then XI (pos_of_int (i lsr 1)) else XO (pos_of_int (i lsr 1))
let n_of_int (i : int) : n = if i = 0 then N0 else Npos (pos_of_int i)
let rec int_of_pos (p : positive) : int =
  match p with XH -> 1 | XO q -> 2 * int_of_pos q | XI q -> 2 * int_of_pos q + 1
let int_of_n (x : n) : int = match x with N0 -> 0 | Npos p -> int_of_pos p
let rec nat_of_int (i : int) : nat = if i <= 0 then O else S (nat_of_int (i - 1))
let rec int_of_nat (x : nat) : int = match x with O -> 0 | S y -> 1 + int_of_nat y
let z_of_int (i : int) : z = if i = 0 then Z0 else if i > 0 then Zpos (pos_of_int i) else Zneg (pos_of_int (-i))
let int_of_z (x : z) : int = match x with Z0 -> 0 | Zpos p -> int_of_pos p | Zneg p -> - (int_of_pos p)

(* arbitrary-size decimal <-> N, via repeated doubling on decimal strings *)
let n_of_decimal (s : string) : n =
  (* s: decimal digits; build binary by repeated division by 2 *)
  let digits = Array.init (String.length s) (fun i -> Char.code s.[i] - 48) in
  let len = Array.length digits in
  let is_zero () = Array.for_all (fun d -> d = 0) digits in
  let bits = ref [] in
  while not (is_zero ()) do
    let carry = ref 0 in
    for i = 0 to len - 1 do
      let cur = !carry * 10 + digits.(i) in
      digits.(i) <- cur / 2; carry := cur mod 2
    done;
    bits := !carry :: !bits   (* most significant first at the end *)
  done;
  (* !bits is msb first *)
  match !bits with
  | [] -> N0
  | _ :: rest -> (* leading bit is 1 *)
    Npos (List.fold_left (fun acc b -> if b = 1 then XI acc else XO acc) XH rest)

let decimal_of_n (x : n) : string =
  match x with
  | N0 -> "0"
  | Npos p ->
    (* collect bits msb first *)
    let rec bits p acc = match p with XH -> 1 :: acc | XO q -> bits q (0 :: acc) | XI q -> bits q (1 :: acc) in
    let bl = bits p [] in
    let digs = ref [0] in (* little endian decimal *)
    List.iter (fun b ->
      let carry = ref b in
      digs := List.map (fun d -> let v = d * 2 + !carry in carry := v / 10; v mod 10) !digs;
      if !carry > 0 then digs := !digs @ [!carry]) bl;
    String.concat "" (List.rev_map string_of_int !digs)

let hexval c = match c with
  | '0'..'9' -> Char.code c - 48 | 'a'..'f' -> Char.code c - 87 | 'A'..'F' -> Char.code c - 55
  | _ -> failwith "hex"
let bytes_of_hex (s : string) : n list =
  if s = "-" then [] else
  let l = String.length s / 2 in
  List.init l (fun i -> n_of_int (hexval s.[2*i] * 16 + hexval s.[2*i+1]))
let hex_of_bytes (b : n list) : string =
  if b = [] then "-" else
  String.concat "" (List.map (fun x -> Printf.sprintf "%02x" (int_of_n x)) b)
let hexlist (l : n list list) : string =
  if l = [] then "." else String.concat "," (List.map hex_of_bytes l)

let split_ws (s : string) : string list =
  List.filter (fun x -> x <> "") (String.split_on_char ' ' s)

let main_loop (handle : string list -> string) =
  (try
    while true do
      let line = input_line stdin in
      let out = (try handle (split_ws line) with
                 | Stack_overflow -> "MODEL-STACK-OVERFLOW"
                 | Failure m -> "MODEL-FAILURE " ^ m
                 | Not_found -> "MODEL-NOTFOUND") in
      print_string out; print_char '\n'
    done
  with End_of_file -> ());
  Stdlib.flush Stdlib.stdout
