(* args engine runner *)
let opt_hex (s : string) : n list option = if s = "_" then None else Some (bytes_of_hex s)
let hexs (b : n list) = if b = [] then "-" else hex_of_bytes b
let fs_of (files : string list) =
  List.map (fun pc -> match String.split_on_char '=' pc with
                      | [p; c] -> (bytes_of_hex p, bytes_of_hex c) | _ -> failwith "fs") files
let handle (w : string list) : string =
  match w with
  | "set" :: pcp :: login :: namemax :: dflt :: known :: selfp :: ef :: ect :: eut :: ercmd :: emisc :: erpath :: opts ->
    let knownl = List.map bytes_of_hex (List.filter (fun x -> x <> "") (String.split_on_char ',' known)) in
    let world = { login = bytes_of_hex login; name_max = nat_of_int (int_of_string namemax); dflt_rcmd = bytes_of_hex dflt;
                  known_rcmd = (fun b -> List.mem b knownl); self_path = bytes_of_hex selfp; is_pcp = (pcp = "1") } in
    let env = { e_fanout = opt_hex ef; e_ctimeout = opt_hex ect; e_utimeout = opt_hex eut; e_rcmd = opt_hex ercmd;
                e_misc = opt_hex emisc; e_rpath = opt_hex erpath } in
    let parse o =
      let v = bytes_of_hex (String.sub o 2 (String.length o - 2)) in
      match o.[0] with
      | 'f' -> Of v | 't' -> Ot v | 'u' -> Ou v | 'l' -> Ol v | 'R' -> OR v | 'M' -> OM v | _ -> Oe v in
    (match effective world env (List.map parse opts) with
     | Refused -> "REFUSED"
     | Run s -> String.concat " " ["RUN"; string_of_int (int_of_z s.fanout); string_of_int (int_of_z s.ctimeout);
                                   string_of_int (int_of_z s.utimeout); hexs s.ruser; hexs s.rcmd;
                                   (match s.misc with Some m -> hexs m | None -> "_"); hexs s.rpath])
  | "wcoll" :: file :: files ->
    (* files: path=content pairs in hex *)
    (match read_wcoll (fs_of files) (bytes_of_hex file) with
     | RFatal -> "FATAL"
     | RFault -> "FAULT"
     | RDiverges -> "DIVERGES"
     | ROk (exprs, _, warns) ->
       let h = List.fold_left (fun h e -> fst (push h e)) hl_empty exprs in
       "OK W=" ^ string_of_int (int_of_nat warns) ^ " " ^ hexlist (iter_all h.ranges))
  | "split" :: sep :: s :: [] ->
    "OK " ^ hexlist (list_split (n_of_int (int_of_string sep)) (bytes_of_hex s))
  | "asm" :: stdin :: wcoll :: args :: files ->
    (* the -w arguments (comma-joined hex, "." = none), standard input, WCOLL ("_" = unset), the file system;
       answer: the target list after wcoll_expand (every host pushed once more) *)
    let argl = if args = "." then [] else List.map bytes_of_hex (String.split_on_char ',' args) in
    let w = { aw_fs = fs_of files; aw_stdin = bytes_of_hex stdin; aw_wcoll = opt_hex wcoll } in
    (match assemble w argl with
     | AError -> "ERROR"
     | AFault -> "FAULT"
     | ADiverges -> "DIVERGES"
     | AOutOfScope -> "OUTOFSCOPE"
     | AOk (exprs, warns) ->
       let h = List.fold_left (fun h e -> fst (push h e)) hl_empty exprs in
       let h2 = reexpand (iter_all h.ranges) in
       "OK W=" ^ string_of_int (int_of_nat warns) ^ " X=" ^ hexlist exprs ^ " " ^ hexlist (iter_all h2.ranges))
  | _ -> "MODEL-BADCASE"
let () = main_loop handle
