(* cbuf engine runner: same history protocol as harness/cbuf_harness.c *)
let soi = string_of_int
let st (c : cbuf) : string =
  "|" ^ soi (int_of_n c.used) ^ "," ^ soi (int_of_n c.size - int_of_n c.used) ^ "," ^ soi (int_of_n c.size) ^ "," ^ soi (int_of_n (lines_used c))

let split_on c s = String.split_on_char c s

let script_of (s : string) : fdev list =
  if s = "" then [] else
  List.map (fun it ->
    match it.[0] with
    | 'A' -> Avail (bytes_of_hex (String.sub it 1 (String.length it - 1)))
    | 'E' -> Eof
    | _ -> RdErr) (List.filter (fun x -> x <> "") (split_on '/' s))

let wres_str (r : wres) : string =
  match r with
  | WOk (n, d) -> soi (int_of_n n) ^ "," ^ soi (int_of_n d)
  | WErr -> "-1,0"
  | WEof -> "0,0"

let hexs (b : n list) = if b = [] then "-" else hex_of_bytes b

let step (c : cbuf) (op : string) : cbuf * string =
  match split_on ':' op with
  | ["w"; h] -> let (c', r) = write c (bytes_of_hex h) in (c', wres_str r)
  | "f" :: len :: rest ->
    let l = int_of_string len in
    let scr = script_of (match rest with [s] -> s | _ -> "") in
    let ((c', _), r) = write_from_fd c scr (if l < 0 then None else Some (n_of_int l)) in (c', wres_str r)
  | ["r"; len] -> let (c', bs) = read c (n_of_int (int_of_string len)) in (c', soi (List.length bs) ^ "," ^ hexs bs)
  | ["p"; len] -> let bs = peek c (n_of_int (int_of_string len)) in (c, soi (List.length bs) ^ "," ^ hexs bs)
  | ["d"; len] -> let l = int_of_string len in
    let (c', k) = drop c (if l < 0 then None else Some (n_of_int l)) in (c', soi (int_of_n k))
  | ["rl"; len; lines] ->
    let ((c', k), t) = read_line c (n_of_int (int_of_string len)) (z_of_int (int_of_string lines)) in
    (c', soi (int_of_n k) ^ "," ^ (match t with Some b -> hexs b | None -> "_"))
  | ["pl"; len; lines] ->
    let (k, t) = peek_line c (n_of_int (int_of_string len)) (z_of_int (int_of_string lines)) in
    (c, soi (int_of_n k) ^ "," ^ (match t with Some b -> hexs b | None -> "_"))
  | ["dl"; len; lines] ->
    let (c', k) = drop_line c (n_of_int (int_of_string len)) (z_of_int (int_of_string lines)) in (c', soi (int_of_n k))
  | ["wl"; h] -> let (c', r) = write_line c (bytes_of_hex h) in (c', wres_str r)
  | ["o"; v] -> (opt_set c (match v with "0" -> NO_DROP | "1" -> WRAP_ONCE | _ -> WRAP_MANY), "0")
  | ["fl"] -> (flush c, "0")
  | _ -> (c, "BADOP")

let handle (w : string list) : string =
  match w with
  | mn :: mx :: ops ->
    (match create (n_of_int (int_of_string mn)) (n_of_int (int_of_string mx)) with
     | None -> "NOCREATE"
     | Some c0 ->
       let buf = Buffer.create 256 in
       Buffer.add_string buf ("C" ^ st c0);
       let _ = List.fold_left (fun c op ->
         let (c', s) = step c op in
         Buffer.add_char buf ' '; Buffer.add_string buf s; Buffer.add_string buf (st c'); c') c0 ops in
       Buffer.contents buf)
  | _ -> "MODEL-BADCASE"

let () = main_loop handle
