(* hostlist engine runner: one case per line in, one result per line out *)
let out_names (r : n list list outcome) : string =
  match r with
  | Ok l -> "OK " ^ hexlist l
  | Err EINVAL -> "ERR"
  | Err ERANGE -> "ERR"
  | Fault _ -> "FAULT"

let errname e = match e with EINVAL -> "EINVAL" | ERANGE -> "ERANGE"

let print_result (r : (n list * nat option) outcome) : string =
  match r with
  | Ok (buf, ret) ->
    let rs = match ret with Some k -> string_of_int (int_of_nat k) | None -> "-1" in
    (match cstring buf with
     | Some s -> rs ^ " " ^ hex_of_bytes s
     | None -> rs ^ " UNTERMINATED")
  | Err _ -> "ERR"
  | Fault _ -> "FAULT"

let rec fill (k : int) (acc : n list) : n list = if k <= 0 then acc else fill (k - 1) (n_of_int 170 :: acc)

(* ---- C16: op histories ---- *)
let fault_name f = match f with
  | EFNull -> "NULL" | EFAssert -> "ASSERT" | EFWritePast -> "WRITEPAST" | EFDeadIter -> "DEADITER"
  | EFIntOverflow -> "INTOVERFLOW" | EFOracle -> "ORACLE" | EFFuel -> "FUEL"

let parse_hr (s : string) : hr =
  match String.split_on_char ':' s with
  | [p; l; h; w; sg] ->
    { pfx = bytes_of_hex p; lo = n_of_decimal l; hi = n_of_decimal h;
      wid = nat_of_int (int_of_string w); single = (sg = "1") }
  | _ -> failwith "range"

let parse_op (t : string) : op =
  let name, arg = match String.index_opt t ':' with
    | None -> t, ""
    | Some i -> String.sub t 0 i, String.sub t (i + 1) (String.length t - i - 1) in
  match name with
  | "push" -> OPush (bytes_of_hex arg)
  | "shift" -> OShift
  | "pop" -> OPop
  | "count" -> OCount
  | "nth" -> ONth (z_of_int (int_of_string arg))
  | "find" -> OFind (bytes_of_hex arg)
  | "delete_host" -> ODeleteHost (bytes_of_hex arg)
  | "delete_nth" -> ODeleteNth (z_of_int (int_of_string arg))
  | "delete" -> ODelete (bytes_of_hex arg)
  | "uniq" -> OUniq (if arg = "" then [] else List.map parse_hr (String.split_on_char '/' arg))
  | "iter_new" -> OIterNew
  | "iter_next" -> OIterNext (nat_of_int (int_of_string arg))
  | "iter_remove" -> OIterRemove (nat_of_int (int_of_string arg))
  | "iter_reset" -> OIterReset (nat_of_int (int_of_string arg))
  | "iter_destroy" -> OIterDestroy (nat_of_int (int_of_string arg))
  | _ -> failwith "op"

let obs_string (o : op) (v : obs) (st : hstate) : string =
  match v with
  | VName None -> "~"
  | VName (Some b) -> hex_of_bytes b
  | VInt z -> string_of_int (int_of_z z)
  | VUnit -> (match o with OUniq _ -> "q=" ^ hexlist (st_names st) | _ -> "u")

let run_ops (prog : string) : string =
  let ops = List.map parse_op (List.filter (fun x -> x <> "") (String.split_on_char ';' prog)) in
  let rec go st ops k acc =
    match ops with
    | [] ->
      "OK " ^ String.concat ";" (List.rev acc) ^ "|" ^ string_of_int (int_of_z (st_count st)) ^ "|" ^ hexlist (st_names st)
    | o :: rest ->
      (match step st o with
       | ROk (st', v) -> go st' rest (k + 1) (obs_string o v st' :: acc)
       | RFault f -> "FAULT " ^ string_of_int k ^ " " ^ fault_name f ^ " " ^ String.concat ";" (List.rev acc))
  in go st_empty ops 0 []

let handle (w : string list) : string =
  match w with
  | ["ops"; prog] -> run_ops prog
  | ["parse"; h] ->
    (match create (bytes_of_hex h) with
     | Ok hl -> "N=" ^ string_of_int (int_of_z hl.nhosts) ^ " OK " ^ hexlist (iter_all hl.ranges)
     | Err e -> "ERR " ^ errname e
     | Fault _ -> "FAULT")
  | ["ranged"; h; n] ->
    (match create (bytes_of_hex h) with
     | Ok hl -> print_result (ranged_string hl.ranges (fill (int_of_string n) []))
     | _ -> "ERR")
  | ["deranged"; h; n] ->
    (match create (bytes_of_hex h) with
     | Ok hl -> print_result (deranged_string hl.ranges (fill (int_of_string n) []))
     | _ -> "ERR")
  | ["rtext"; h] ->
    (* the pure text of Hostlist/HLRangedFit.v (theorem ranged_fit: what the printer lays down whenever it fits) *)
    (match create (bytes_of_hex h) with
     | Ok hl -> let t = ranged_text hl.ranges in
                (if printableb hl.ranges then "P " else "N ") ^ string_of_int (List.length t) ^ " " ^ hex_of_bytes t
     | _ -> "ERR")
  | ["gtexts"; h] ->
    (match create (bytes_of_hex h) with
     | Ok hl -> "OK" ^ String.concat "" (List.map (fun t -> " " ^ hex_of_bytes t) (gtexts (S (length hl.ranges)) hl.ranges))
     | _ -> "ERR")
  | ["targets"; h] -> out_names (targets (bytes_of_hex h))
  | ["targets1"; h] -> out_names (targets1 (bytes_of_hex h))
  | _ -> "MODEL-BADCASE"

let () = main_loop handle
