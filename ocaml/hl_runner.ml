(* hostlist engine runner: one case per line in, one result per line out *)
let out_names (r : n list list outcome) : string =
  match r with
  | Ok l -> "OK " ^ hexlist l
  | Err EINVAL -> "ERR"
  | Err ERANGE -> "ERR"
  | Fault _ -> "FAULT"

let handle (w : string list) : string =
  match w with
  | ["targets"; h] -> out_names (targets (bytes_of_hex h))
  | ["targets1"; h] -> out_names (targets1 (bytes_of_hex h))
  | _ -> "MODEL-BADCASE"

let () = main_loop handle
