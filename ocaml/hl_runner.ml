(* hostlist engine runner: one case per line in, one result per line out *)
let out_names (r : n list list outcome) : string =
  match r with
  | Ok l -> "OK " ^ hexlist l
  | Err EINVAL -> "ERR"
  | Err ERANGE -> "ERR"
  | Fault _ -> "FAULT"

let errname e = match e with EINVAL -> "EINVAL" | ERANGE -> "ERANGE"

let print_result (r : (n list * nat option) outcome) : string =
  match r with
  | Ok (buf, ret) ->
    let rs = match ret with Some k -> string_of_int (int_of_nat k) | None -> "-1" in
    (match cstring buf with
     | Some s -> rs ^ " " ^ hex_of_bytes s
     | None -> rs ^ " UNTERMINATED")
  | Err _ -> "ERR"
  | Fault _ -> "FAULT"

let rec fill (k : int) (acc : n list) : n list = if k <= 0 then acc else fill (k - 1) (n_of_int 170 :: acc)

let handle (w : string list) : string =
  match w with
  | ["parse"; h] ->
    (match create (bytes_of_hex h) with
     | Ok hl -> "N=" ^ string_of_int (int_of_z hl.nhosts) ^ " OK " ^ hexlist (iter_all hl.ranges)
     | Err e -> "ERR " ^ errname e
     | Fault _ -> "FAULT")
  | ["ranged"; h; n] ->
    (match create (bytes_of_hex h) with
     | Ok hl -> print_result (ranged_string hl.ranges (fill (int_of_string n) []))
     | _ -> "ERR")
  | ["deranged"; h; n] ->
    (match create (bytes_of_hex h) with
     | Ok hl -> print_result (deranged_string hl.ranges (fill (int_of_string n) []))
     | _ -> "ERR")
  | ["targets"; h] -> out_names (targets (bytes_of_hex h))
  | ["targets1"; h] -> out_names (targets1 (bytes_of_hex h))
  | _ -> "MODEL-BADCASE"

let () = main_loop handle
