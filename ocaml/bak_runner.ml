(* dshbak engine runner: one case per line in, one result per line out *)
let unhexlist (s : string) : n list list =
  if s = "." then [] else List.map bytes_of_hex (String.split_on_char ',' s)

let groups_str (g : (n list * n list list) list) : string =
  if g = [] then "." else
  String.concat "|" (List.map (fun (sfx, ws) -> hex_of_bytes sfx ^ "=" ^ hexlist ws) g)

let handle (w : string list) : string =
  match w with
  | ["normal"; s; o] ->
    (match dshbak_normal (unhexlist o) (bytes_of_hex s) with
     | Modelled out -> "OK " ^ hex_of_bytes out
     | Unmodelled -> "UNMODELLED")
  | ["files"; s; o] ->
    (match dshbak_files (unhexlist o) (bytes_of_hex s) with
     | Modelled fl ->
       if fl = [] then "OK ." else
       "OK " ^ String.concat "," (List.map (fun (t, c) -> hex_of_bytes t ^ "=" ^ hex_of_bytes c) fl)
     | Unmodelled -> "UNMODELLED")
  | ["coalesce"; s; o] ->
    (match dshbak_coalesce_groups (unhexlist o) (bytes_of_hex s) with
     | Modelled bl ->
       if bl = [] then "OK ." else
       "OK " ^ String.concat ";" (List.map (fun ((tags, g), body) ->
                 hexlist tags ^ "/" ^ groups_str g ^ "/" ^ hex_of_bytes (List.concat body)) bl)
     | Unmodelled -> "UNMODELLED")
  | ["compress"; h] ->
    (match compress_checked (unhexlist h) with
     | Modelled g -> "OK " ^ groups_str g
     | Unmodelled -> "UNMODELLED")
  (* the statement of C19_header_expansion evaluated: C parser's model on the model's header *)
  | ["expand"; h; o] ->
    let hosts = unhexlist h in
    (match targets (join (n_of_int 44) (compress (unhexlist o) hosts)) with
     | Ok l -> "OK " ^ hexlist l
     | Err _ -> "ERR"
     | Fault _ -> "FAULT")
  | ["split"; l] ->
    (match split_line (bytes_of_hex l) with
     | Some (t, d) -> "OK " ^ hex_of_bytes t ^ " " ^ hex_of_bytes d
     | None -> "NOMATCH")
  | _ -> "MODEL-BADCASE"

let () = main_loop handle
