/* C02: an rcmd module named "c02list" that records every host pdsh tries to contact.
 * Each connection attempt appends "<rank> <host>\n" to the file named by $C02_CONTACT_LOG
 * (one write(2) per host, O_APPEND) and then fails, so nothing is run anywhere.
 * With -f 1 the log is the sequence of hosts in the order pdsh contacts them. */
#if HAVE_CONFIG_H
#include "config.h"
#endif
#include <stdio.h>
#include <stdlib.h>
#include <string.h>
#include <fcntl.h>
#include <unistd.h>
#include "src/pdsh/opt.h"
#include "src/pdsh/mod.h"
#include "src/pdsh/rcmd.h"
int pdsh_module_priority = DEFAULT_MODULE_PRIORITY;
static int l_init(opt_t *o) { rcmd_opt_set(RCMD_OPT_RESOLVE_HOSTS, 0); return 0; }
static int l_sig(int fd, void *a, int s) { return 0; }
static int l_rcmd(char *h, char *ad, char *lu, char *ru, char *c, int r, int *fd2p, void **arg)
{
    const char *path = getenv("C02_CONTACT_LOG");
    if (path) {
        char buf[8192];
        int n = snprintf(buf, sizeof buf, "%d %s\n", r, h);
        int fd = open(path, O_WRONLY | O_APPEND | O_CREAT, 0600);
        if (fd >= 0) {
            if (n > 0 && n < (int) sizeof buf) { ssize_t w = write(fd, buf, n); (void) w; }
            close(fd);
        }
    }
    return -1;
}
static int l_destroy(void *a) { return 0; }
struct pdsh_module_operations l_ops = { NULL, NULL, NULL, NULL };
struct pdsh_rcmd_operations l_rops = { (RcmdInitF) l_init, (RcmdSigF) l_sig, (RcmdF) l_rcmd, (RcmdDestroyF) l_destroy };
struct pdsh_module_option l_opts[] = { PDSH_OPT_TABLE_END };
struct pdsh_module pdsh_module_info = { "rcmd", "c02list", "verif", "records the hosts contacted", DSH | PCP, &l_ops, &l_rops, &l_opts[0] };
