/* forkfail: LD_PRELOAD shim.  The FORKFAIL_N-th call of fork() in the process fails with EAGAIN
 * (a resource fault at the moment one target's command is to be started). */
#define _GNU_SOURCE
#include <dlfcn.h>
#include <errno.h>
#include <stdlib.h>
#include <unistd.h>
#include <sys/types.h>

static int calls;

pid_t fork(void)
{
    static pid_t (*real)(void);
    const char *s = getenv("FORKFAIL_N");
    int n = s ? atoi(s) : 0;
    if (!real)
        real = (pid_t (*)(void)) dlsym(RTLD_NEXT, "fork");
    if (n > 0 && __sync_add_and_fetch(&calls, 1) == n) {
        errno = EAGAIN;
        return -1;
    }
    return real();
}
