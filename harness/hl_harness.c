/* hostlist engine, implementation side.
 * Includes the repository's hostlist.c (statics reachable; only the public API
 * and opt.c's wcoll_expand call sequence are used for comparison).
 * One case per line on stdin, one result line on stdout.
 * Built with -fsanitize=address,undefined: any memory fault aborts the process,
 * which the driver records as CRASH for that case.
 */
/* C16: hostlist_uniq/hostlist_sort call libc qsort; the array as qsort left it is recorded so
 * that the model can take it as its sort oracle (the call itself goes to the real qsort) */
#include <stdlib.h>
static void hl_qsort_hook(void *, size_t, size_t, int (*)(const void *, const void *));
#define qsort hl_qsort_hook
#include "src/common/hostlist.c"
#undef qsort

#include <stdint.h>

static int quiet_errors = 1;
void lsd_fatal_error(char *file, int line, char *mesg)
{
    if (!quiet_errors)
        fprintf(stderr, "hostlist error: %s\n", mesg);
    if (getenv("HL_HARNESS_DIAG"))
        fprintf(stdout, "DIAG %s\n", mesg);
}
#ifndef lsd_nomem_error
void *lsd_nomem_error(char *file, int line, char *mesg)
{
    fprintf(stderr, "out of memory: %s\n", mesg);
    abort();
    return NULL;
}
#endif

static int hexv(int c)
{
    if (c >= '0' && c <= '9') return c - '0';
    if (c >= 'a' && c <= 'f') return c - 'a' + 10;
    if (c >= 'A' && c <= 'F') return c - 'A' + 10;
    return -1;
}

/* decode hex word into a fresh exact-size heap string (so ASan sees overreads) */
static char *unhex(const char *h)
{
    size_t n, i;
    char *s;
    if (strcmp(h, "-") == 0) {
        s = malloc(1);
        s[0] = 0;
        return s;
    }
    n = strlen(h) / 2;
    s = malloc(n + 1);
    for (i = 0; i < n; i++)
        s[i] = (char)(hexv(h[2 * i]) * 16 + hexv(h[2 * i + 1]));
    s[n] = 0;
    return s;
}

static void puthex(const char *s)
{
    if (!*s) {
        putchar('-');
        return;
    }
    for (; *s; s++)
        printf("%02x", (unsigned char)*s);
}

static void print_all(hostlist_t hl)
{
    hostlist_iterator_t it = hostlist_iterator_create(hl);
    char *h;
    int first = 1;
    printf("OK ");
    while ((h = hostlist_next(it))) {
        if (!first) putchar(',');
        first = 0;
        puthex(h);
        free(h);
    }
    if (first) putchar('.');
    putchar('\n');
    hostlist_iterator_destroy(it);
}

/* opt.c: wcoll_expand() — same public calls in the same order */
static hostlist_t wcoll_expand_like(hostlist_t hl)
{
    hostlist_t n = hostlist_create("");
    char *hosts;
    while ((hosts = hostlist_shift(hl))) {
        hostlist_push(n, hosts);
        free(hosts);
    }
    hostlist_destroy(hl);
    return n;
}

/* fill the stack area the callee is about to use with a non-zero pattern, so that a
 * missing terminator in a stack buffer is observable instead of depending on stale zeros */
static void __attribute__((noinline)) dirty_stack(void)
{
    volatile char pad[768 * 1024];
    memset((void *)pad, 0xAA, sizeof pad);
    __asm__ volatile("" ::: "memory");
}

#include "hl_ops.inc"

#define MAXW 64
int main(int argc, char **argv)
{
    char *line = NULL;
    size_t cap = 0;
    ssize_t len;
    setvbuf(stdout, NULL, _IOLBF, 0);
    while ((len = getline(&line, &cap, stdin)) > 0) {
        char *w[MAXW];
        int nw = 0;
        char *p = strtok(line, " \n");
        while (p && nw < MAXW) {
            w[nw++] = p;
            p = strtok(NULL, " \n");
        }
        if (nw == 0) {
            printf("BADCASE\n");
            continue;
        }
        dirty_stack();
        if (strcmp(w[0], "targets") == 0 && nw == 2) {
            char *s = unhex(w[1]);
            hostlist_t hl = hostlist_create(s);
            if (!hl)
                printf("ERR\n");
            else {
                hl = wcoll_expand_like(hl);
                print_all(hl);
                hostlist_destroy(hl);
            }
            free(s);
        } else if (strcmp(w[0], "targets1") == 0 && nw == 2) {
            char *s = unhex(w[1]);
            hostlist_t hl = hostlist_create(s);
            if (!hl)
                printf("ERR\n");
            else {
                print_all(hl);
                hostlist_destroy(hl);
            }
            free(s);
        } else if (!more_ops(nw, w))
            printf("BADCASE\n");
        fflush(stdout);
    }
    free(line);
    return 0;
}
