/* C17 harness: stands in for the generated config.c of the real build (pdsh_version, pdsh_module_dir).
 * The built-in module directory is chosen per run through $C17_BUILTIN_DIR so that one binary can be
 * pointed at many generated directories also when it runs as root or set-uid (where main() ignores
 * PDSH_MODULE_DIR - that logic is the real one and is what the check observes). */
#include <stdlib.h>
char *pdsh_version = "pdsh-verif-c17";
char *pdsh_module_dir = "/nonexistent-c17-builtin";
__attribute__((constructor)) static void c17_builtin_dir(void)
{
    char *p = getenv("C17_BUILTIN_DIR");
    if (p && *p)
        pdsh_module_dir = p;
}
