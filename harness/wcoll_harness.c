/* wcoll engine: read_wcoll() of the repository on real files in a scratch directory.
 * case:  wcoll <dirhex> <filehex>      (chdir to dir, read_wcoll(file, NULL))
 * answer: OK W=<number of warnings> <hosts hex,...>  |  FATAL
 *         HANG ... (child killed by its 20 s alarm)  |  CRASHED signal <n>
 * Each case runs in a forked child because read errors call errx() -> exit(1). */
#include <stdio.h>
#include <stdlib.h>
#include <string.h>
#include <unistd.h>
#include <sys/wait.h>
#include <signal.h>
#include "src/common/hostlist.h"
#include "src/common/err.h"
#include "src/pdsh/wcoll.h"

static int hexv(int c) { return c >= 'a' ? c - 'a' + 10 : c - '0'; }
static char *unhex(const char *h)
{
    size_t n = strcmp(h, "-") ? strlen(h) / 2 : 0, i;
    char *s = malloc(n + 1);
    for (i = 0; i < n; i++) s[i] = (char)(hexv(h[2 * i]) * 16 + hexv(h[2 * i + 1]));
    s[n] = 0;
    return s;
}
int main(void)
{
    char *line = NULL; size_t cap = 0;
    err_init("pdsh");
    while (getline(&line, &cap, stdin) > 0) {
        char *save = NULL, *op = strtok_r(line, " \n", &save);
        char *d = strtok_r(NULL, " \n", &save), *f = strtok_r(NULL, " \n", &save);
        int po[2], pe[2], st; pid_t pid;
        if (!op || !d || !f) { printf("BADCASE\n"); fflush(stdout); continue; }
        pipe(po); pipe(pe);
        fflush(stdout);
        pid = fork();
        if (pid == 0) {
            char *dir = unhex(d), *file = unhex(f);
            hostlist_t hl; hostlist_iterator_t it; char *h; int first = 1;
            close(po[0]); close(pe[0]);
            dup2(po[1], 1); dup2(pe[1], 2);
            if (chdir(dir) < 0) _exit(3);
            alarm(20);                  /* an include loop must not hang the run: SIGALRM -> HANG */
            hl = read_wcoll(file, NULL);
            if (!hl) _exit(4);
            it = hostlist_iterator_create(hl);
            while ((h = hostlist_next(it))) {
                if (!first) putchar(',');
                first = 0;
                for (char *p = h; *p; p++) printf("%02x", (unsigned char)*p);
                if (!*h) putchar('-');
            }
            if (first) putchar('.');
            fflush(stdout);
            _exit(0);
        }
        close(po[1]); close(pe[1]);
        {
            static char ob[1 << 22], eb[1 << 16];
            size_t on = 0, en = 0; ssize_t k;
            while ((k = read(po[0], ob + on, sizeof ob - 1 - on)) > 0) on += k;
            while ((k = read(pe[0], eb + en, sizeof eb - 1 - en)) > 0) en += k;
            ob[on] = 0; eb[en] = 0;
            close(po[0]); close(pe[0]);
            waitpid(pid, &st, 0);
            if (WIFEXITED(st) && WEXITSTATUS(st) == 0) {
                int w = 0; char *p = eb;
                while ((p = strstr(p, "warning:"))) { w++; p += 8; }
                printf("OK W=%d %s\n", w, ob);
            } else if (WIFSIGNALED(st) && WTERMSIG(st) == SIGALRM)
                printf("HANG no answer within 20 s\n");
            else if (WIFSIGNALED(st))
                printf("CRASHED signal %d\n", WTERMSIG(st));
            else
                printf("FATAL\n");
        }
        fflush(stdout);
    }
    return 0;
}
