/* C09 recording transport: an rcmd module (built several times under different names with
 * -DRECNAME="..") that appends what rcmd_connect hands it to the file named by $C09_LOG:
 *   REC <module> <host> <locuser> <remuser> <cmd> <rank>      (hex fields)
 * and returns a descriptor at end-of-file, so the run completes at once. */
#if HAVE_CONFIG_H
#include "config.h"
#endif
#include <stdio.h>
#include <stdlib.h>
#include <string.h>
#include <unistd.h>
#include <fcntl.h>
#include <sys/socket.h>
#include "src/pdsh/opt.h"
#include "src/pdsh/mod.h"
#include "src/pdsh/rcmd.h"
#ifndef RECNAME
#define RECNAME "reca"
#endif
int pdsh_module_priority = DEFAULT_MODULE_PRIORITY;
static char *hex(char *o, const char *s)
{
    if (!*s) *o++ = '-';
    for (; *s; s++) o += sprintf(o, "%02x", (unsigned char)*s);
    *o++ = ' ';
    return o;
}
static int r_init(opt_t *o) { rcmd_opt_set(RCMD_OPT_RESOLVE_HOSTS, 0); return 0; }
static int r_sig(int fd, void *a, int s) { return 0; }
static int r_rcmd(char *h, char *ad, char *lu, char *ru, char *c, int rank, int *fd2p, void **arg)
{
    const char *log = getenv("C09_LOG");
    size_t need = 2 * (strlen(h) + strlen(lu) + strlen(ru) + strlen(c)) + 128;
    char *buf = malloc(need), *o = buf;
    int sp[2], fd;
    o += sprintf(o, "REC %s ", RECNAME);
    o = hex(o, h); o = hex(o, lu); o = hex(o, ru); o = hex(o, c);
    o += sprintf(o, "%d\n", rank);
    if (log && (fd = open(log, O_WRONLY | O_APPEND | O_CREAT, 0600)) >= 0) {
        if (write(fd, buf, o - buf) < 0) { }
        close(fd);
    }
    free(buf);
    if (socketpair(AF_UNIX, SOCK_STREAM, 0, sp) < 0) return -1;
    close(sp[1]);
    if (fd2p) {
        int ep[2];
        if (socketpair(AF_UNIX, SOCK_STREAM, 0, ep) < 0) return -1;
        close(ep[1]); *fd2p = ep[0];
    }
    return sp[0];
}
static int r_destroy(void *a) { return 0; }
struct pdsh_module_operations r_ops = { NULL, NULL, NULL, NULL };
struct pdsh_rcmd_operations r_rops = { (RcmdInitF) r_init, (RcmdSigF) r_sig, (RcmdF) r_rcmd, (RcmdDestroyF) r_destroy };
struct pdsh_module_option r_opts[] = { PDSH_OPT_TABLE_END };
struct pdsh_module pdsh_module_info = { "rcmd", RECNAME, "verif", "recording transport", DSH | PCP, &r_ops, &r_rops, &r_opts[0] };
