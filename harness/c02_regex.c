/* C02: the bits libc's regcomp/regexec return, with the flags opt.c uses
 * (regex_info_create: REG_EXTENDED | REG_NOSUB, eflags 0).
 * one case per line:  PATHEX HOSTHEX,HOSTHEX,...   (- = empty string, . = no hosts)
 * answer:             C BITS      C = 1 if regcomp accepts the pattern, BITS = one 0/1 per host */
#include <stdio.h>
#include <stdlib.h>
#include <string.h>
#include <regex.h>

static char *unhex(const char *h)
{
    size_t n = strlen(h), k;
    char *s;
    if (strcmp(h, "-") == 0 || strcmp(h, ".") == 0)
        return strdup("");
    s = malloc(n / 2 + 1);
    for (k = 0; k < n / 2; k++) {
        unsigned v;
        sscanf(h + 2 * k, "%2x", &v);
        s[k] = (char) v;
    }
    s[n / 2] = 0;
    return s;
}

int main(void)
{
    char *line = NULL;
    size_t cap = 0;
    while (getline(&line, &cap, stdin) > 0) {
        char *pat, *hosts, *save = NULL, *tok, *p;
        regex_t re;
        int ok;
        line[strcspn(line, "\n")] = 0;
        pat = strtok_r(line, " ", &save);
        hosts = strtok_r(NULL, " ", &save);
        if (!pat || !hosts) { puts("BADCASE"); fflush(stdout); continue; }
        p = unhex(pat);
        ok = regcomp(&re, p, REG_EXTENDED | REG_NOSUB) == 0;
        printf("%d ", ok);
        if (strcmp(hosts, ".") == 0)
            putchar('.');
        else
            for (tok = strtok_r(hosts, ",", &save); tok; tok = strtok_r(NULL, ",", &save)) {
                char *h = unhex(tok);
                putchar(ok && regexec(&re, h, 0, NULL, 0) == 0 ? '1' : '0');
                free(h);
            }
        putchar('\n');
        fflush(stdout);
        if (ok) regfree(&re);
        free(p);
    }
    return 0;
}
