/* "out" engine, implementation side: the per-host output path of dsh.c
 * (_handle_rcmd_stdout/_handle_rcmd_stderr -> _do_output -> cbuf_write_from_fd ->
 * _flush_lines -> _extract_rc -> out()/err(), then _flush_output) driven by a scripted
 * descriptor, with every stdio call captured.  dsh.c is #included so that its statics are
 * reachable; read/close/fputs are intercepted at link time (-Wl,--wrap).
 *
 * case:  out <o|e> <labels 0|1> <hosthex> <script>      script items: A<hex> / X (EAGAIN) / E (EOF)
 *        rc  <linehex>                                   _extract_rc on one line
 * answer: rc=<n> calls=<hex>,<hex>,...   (one element per fputs call on that stream)
 */
#include "src/pdsh/dsh.c"

#define VFD 1000
#define MAXEV 4096
static struct { int kind; unsigned char *b; size_t n, off; } ev[MAXEV];
static int nev, cur;

ssize_t __real_read(int fd, void *buf, size_t n);
int __real_close(int fd);
int __real_fputs(const char *s, FILE *f);

ssize_t __wrap_read(int fd, void *buf, size_t n)
{
    if (fd != VFD)
        return __real_read(fd, buf, n);
    if (cur >= nev || ev[cur].kind == 'E')
        return 0;
    if (ev[cur].kind == 'X') {
        cur++;
        errno = EAGAIN;
        return -1;
    }
    {
        size_t k = ev[cur].n - ev[cur].off;
        if (k > n) k = n;
        memcpy(buf, ev[cur].b + ev[cur].off, k);
        ev[cur].off += k;
        if (ev[cur].off == ev[cur].n) cur++;
        return (ssize_t)k;
    }
}
int __wrap_close(int fd)
{
    if (fd == VFD) return 0;
    return __real_close(fd);
}

static FILE *capture;          /* stream whose fputs calls are recorded */
static char **calls;
static int ncalls, capcalls;
int __wrap_fputs(const char *s, FILE *f)
{
    if (capture && f == capture) {
        if (ncalls == capcalls) {
            capcalls = capcalls ? 2 * capcalls : 64;
            calls = realloc(calls, capcalls * sizeof(char *));
        }
        calls[ncalls++] = strdup(s);
        return 0;
    }
    if (capture && (f == stdout || f == stderr))
        return 0;               /* the other stream: ignore (diagnostics) */
    return __real_fputs(s, f);
}

static int hexv(int c)
{
    if (c >= '0' && c <= '9') return c - '0';
    if (c >= 'a' && c <= 'f') return c - 'a' + 10;
    return -1;
}
static unsigned char *unhex(const char *h, size_t *n)
{
    unsigned char *s;
    size_t i;
    if (h[0] == '-' || h[0] == 0) { *n = 0; return calloc(1, 1); }
    *n = strlen(h) / 2;
    s = malloc(*n + 1);
    for (i = 0; i < *n; i++)
        s[i] = (unsigned char)(hexv(h[2 * i]) * 16 + hexv(h[2 * i + 1]));
    s[*n] = 0;
    return s;
}
static void puthex(FILE *o, const char *s)
{
    if (!*s) { fputc('-', o); return; }
    for (; *s; s++) fprintf(o, "%02x", (unsigned char)*s);
}

static void load_script(char *s)
{
    char *p, *save = NULL;
    for (int i = 0; i < nev; i++) if (ev[i].b) { free(ev[i].b); ev[i].b = NULL; }
    nev = cur = 0;
    for (p = strtok_r(s, "/", &save); p && nev < MAXEV; p = strtok_r(NULL, "/", &save)) {
        ev[nev].kind = p[0]; ev[nev].off = 0; ev[nev].b = NULL; ev[nev].n = 0;
        if (p[0] == 'A') ev[nev].b = unhex(p + 1, &ev[nev].n);
        nev++;
    }
}

int main(int argc, char **argv)
{
    char *line = NULL;
    size_t cap = 0;
    FILE *res = fdopen(dup(1), "w");   /* results go here; stdout itself is captured */
    err_init("pdsh");
    if (argc > 1 && !strcmp(argv[1], "-K"))
        err_no_strip_domain();
    while (getline(&line, &cap, stdin) > 0) {
        char *save = NULL;
        char *op = strtok_r(line, " \n", &save);
        if (!op) { fprintf(res, "BADCASE\n"); fflush(res); continue; }
        if (!strcmp(op, "out")) {
            char *which = strtok_r(NULL, " \n", &save);
            char *lab = strtok_r(NULL, " \n", &save);
            char *hosthex = strtok_r(NULL, " \n", &save);
            char *script = strtok_r(NULL, " \n", &save);
            size_t hn;
            thd_t th[2];
            struct rcmd_info rc;
            int k, guard = 0;
            memset(th, 0, sizeof th);
            memset(&rc, 0, sizeof rc);
            th[0].host = (char *)unhex(hosthex, &hn);
            th[0].labels = atoi(lab);
            th[0].outbuf = cbuf_create(64, 131072);
            th[0].errbuf = cbuf_create(64, 131072);
            th[0].rcmd = &rc;
            rc.fd = rc.efd = VFD;
            t = th;
            load_script(script ? script : (char *)"");
            capture = which[0] == 'o' ? stdout : stderr;
            ncalls = 0;
            for (;;) {
                int r = which[0] == 'o' ? _handle_rcmd_stdout(&th[0]) : _handle_rcmd_stderr(&th[0]);
                if (r <= 0 || ++guard > 100000) break;
            }
            if (which[0] == 'o') _flush_output(th[0].outbuf, (out_f) out, &th[0]);
            else _flush_output(th[0].errbuf, (out_f) err, &th[0]);
            capture = NULL;
            fprintf(res, "rc=%d calls=", th[0].rc);
            if (ncalls == 0) fputc('.', res);
            for (k = 0; k < ncalls; k++) {
                if (k) fputc(',', res);
                puthex(res, calls[k]);
                free(calls[k]);
            }
            fputc('\n', res);
            cbuf_destroy(th[0].outbuf);
            cbuf_destroy(th[0].errbuf);
            free(th[0].host);
            t = NULL;
        } else if (!strcmp(op, "rc")) {
            size_t n;
            char *l = (char *)unhex(strtok_r(NULL, " \n", &save), &n);
            int r = _extract_rc(l);
            fprintf(res, "rc=%d line=", r);
            puthex(res, l);
            fputc('\n', res);
            free(l);
        } else
            fprintf(res, "BADCASE\n");
        fflush(res);
    }
    return 0;
}
