/* C17 fixture: one tiny pdsh module, fully described by -D macros.
 *   MOD_TYPE    string  module type ("misc", "rcmd", ...)
 *   MOD_NAME    string  module name
 *   MOD_PRIO    int     pdsh_module_priority
 *   MOD_PERS    int     personality mask (1 = DSH, 2 = PCP)
 *   MOD_INITRC  int     what init() returns
 *   MOD_OPTS    initialiser entries  { 'a', NULL|"arg", "d", pers, (optFunc) opt_cb },
 * The identity of a fixture is the NAME OF THE FILE it was loaded from (dladdr), so one compiled
 * object can be copied under many names.  Side effects, each one O_APPEND write to the file named by
 * $C17_MARK:   "L <file>"  the object was mapped (ELF constructor: code of the file has run)
 *              "I <file>"  init() ran        "O <file> <letter>"  an option callback ran
 * The constructor also stores the file name in the module's description, so `pdsh -L` shows which
 * file each listed module came from.
 * Linked with tests/test-modules/version.map: only pdsh_module_info / pdsh_module_priority are exported. */
#define _GNU_SOURCE
#if HAVE_CONFIG_H
#  include "config.h"
#endif
#include <stdio.h>
#include <stdlib.h>
#include <string.h>
#include <unistd.h>
#include <fcntl.h>
#include <dlfcn.h>
#include "src/pdsh/mod.h"

int pdsh_module_priority = MOD_PRIO;

/* the fixture never refers to its own exported symbols by name: under RTLD_GLOBAL such a reference
 * binds to the FIRST module that was loaded (symbol interposition), not to this file */
static struct pdsh_module m_info;
static int m_init(void);

static char self[256] = "?";

static void mark(const char *what, int c)
{
    const char *p = getenv("C17_MARK");
    char b[400];
    int fd, n;
    if (!p)
        return;
    if (c)
        n = snprintf(b, sizeof b, "%s %s %d\n", what, self, c);
    else
        n = snprintf(b, sizeof b, "%s %s\n", what, self);
    if ((fd = open(p, O_WRONLY | O_APPEND | O_CREAT, 0666)) < 0)
        return;
    if (write(fd, b, n) < 0) { }
    close(fd);
}

__attribute__((constructor)) static void m_loaded(void)
{
    Dl_info di;
    if (dladdr((void *) m_init, &di) && di.dli_fname) {
        const char *s = strrchr(di.dli_fname, '/');
        strncpy(self, s ? s + 1 : di.dli_fname, sizeof self - 1);
    }
    m_info.descr = self;
    mark("L", 0);
}

static int m_init(void)
{
    mark("I", 0);
    return MOD_INITRC;
}

static int opt_cb(opt_t *o, int c, char *arg)
{
    mark("O", c);
    return 0;
}

static struct pdsh_module_operations m_ops = { (ModInitF) m_init, NULL, NULL, NULL };
static struct pdsh_rcmd_operations m_rcmd = { NULL, NULL, NULL };
static struct pdsh_module_option m_opts[] = {
    MOD_OPTS
    PDSH_OPT_TABLE_END
};

static struct pdsh_module m_info = {
    MOD_TYPE, MOD_NAME, "verif", "?", MOD_PERS,
    &m_ops, &m_rcmd, &m_opts[0],
};
extern struct pdsh_module pdsh_module_info __attribute__((alias("m_info")));
