/* C09 helper run through 'pdsh -R exec': prints its arguments (argv[1..]) as one line of hex,
 * "ARGV <n> <hex,hex,..>" ("-" = empty argument, "." = no arguments) */
#include <stdio.h>
int main(int argc, char **argv)
{
    int i;
    printf("ARGV %d ", argc - 1);
    if (argc < 2) putchar('.');
    for (i = 1; i < argc; i++) {
        unsigned char *p = (unsigned char *)argv[i];
        if (i > 1) putchar(',');
        if (!*p) putchar('-');
        for (; *p; p++) printf("%02x", *p);
    }
    putchar('\n');
    return 0;
}
