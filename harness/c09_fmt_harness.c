/* C09 unit harness: pipecmd.c of the repository #included (statics reachable), ASan build.
 * Every input string is copied into an exactly sized heap block, so a read beyond the
 * terminating NUL is reported by ASan (the driver maps the crash to FAULT).
 * cases:   fmt  <host> <user> <rank> <arg>        -> OK <hex> | NULL
 *          argv <host> <user> <rank> <arg,arg,..>  -> OK <hex,hex,..>   (args[1..] up to the first NULL)
 * hex fields, "-" = empty string, "." = empty list */
#include <stdio.h>
#include <stdlib.h>
#include <string.h>
#include "src/common/pipecmd.c"

static int hexv(int c) { return c >= 'a' ? c - 'a' + 10 : c - '0'; }
static char *unhex(const char *h)
{
    size_t n = strcmp(h, "-") ? strlen(h) / 2 : 0, i;
    char *s = malloc(n + 1);
    for (i = 0; i < n; i++) s[i] = (char)(hexv(h[2 * i]) * 16 + hexv(h[2 * i + 1]));
    s[n] = 0;
    return s;
}
static void puthex(const char *s)
{
    if (!*s) putchar('-');
    for (; *s; s++) printf("%02x", (unsigned char)*s);
}
int main(void)
{
    char *line = NULL; size_t cap = 0;
    while (getline(&line, &cap, stdin) > 0) {
        char *save = NULL, *op = strtok_r(line, " \n", &save);
        char *h = strtok_r(NULL, " \n", &save), *u = strtok_r(NULL, " \n", &save);
        char *r = strtok_r(NULL, " \n", &save), *a = strtok_r(NULL, " \n", &save);
        if (!op || !h || !u || !r || !a) { printf("BADCASE\n"); fflush(stdout); continue; }
        char *host = unhex(h), *user = unhex(u);
        pipecmd_t e = pipe_info_create("/bin/helper", host, user, atoi(r));
        if (!strcmp(op, "fmt")) {
            char *arg = unhex(a);
            char *out = pipecmd_format_arg(e, arg);
            if (!out) printf("NULL\n"); else { printf("OK "); puthex(out); putchar('\n'); }
            free(arg);
        } else if (!strcmp(op, "argv")) {
            int n = 0, i; char **argv = malloc(sizeof(char *)), **args, *save2 = NULL, *t;
            if (strcmp(a, "."))
                for (t = strtok_r(a, ",", &save2); t; t = strtok_r(NULL, ",", &save2)) {
                    argv = realloc(argv, (n + 2) * sizeof(char *));
                    argv[n++] = unhex(t);
                }
            argv[n] = NULL;
            args = cmd_args_create(e, (const char **)argv);
            printf("OK ");
            if (!args[1]) putchar('.');
            for (i = 1; args[i]; i++) { if (i > 1) putchar(','); puthex(args[i]); }
            putchar('\n');
            for (i = 0; i < n; i++) free(argv[i]);
            free(argv);
        } else printf("BADCASE\n");
        fflush(stdout);
        free(host); free(user);
    }
    return 0;
}
