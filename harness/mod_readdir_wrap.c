/* C17 harness: scripted directory enumeration order for the real loader.
 * Linked into the real pdsh program with -Wl,--wrap=readdir (and readdir64).  When $C17_ORDER is set
 * (comma separated entry names) readdir() hands out exactly those names in that order, whatever the
 * file system would do; otherwise the real readdir is used.  mod.c only looks at d_name. */
#include <dirent.h>
#include <stdlib.h>
#include <string.h>

struct dirent *__real_readdir(DIR *d);

static char *order_buf;
static char *order_pos;

struct dirent *__wrap_readdir(DIR *d)
{
    static struct dirent ent;
    const char *o = getenv("C17_ORDER");
    char *e;
    if (!o)
        return __real_readdir(d);
    if (!order_buf) {
        order_buf = strdup(o);
        order_pos = order_buf;
    }
    if (!order_pos || !*order_pos)
        return NULL;
    e = strchr(order_pos, ',');
    memset(&ent, 0, sizeof ent);
    if (e) {
        size_t n = (size_t) (e - order_pos);
        if (n >= sizeof ent.d_name)
            n = sizeof ent.d_name - 1;
        memcpy(ent.d_name, order_pos, n);
        order_pos = e + 1;
    } else {
        strncpy(ent.d_name, order_pos, sizeof ent.d_name - 1);
        order_pos = NULL;
    }
    return &ent;
}

struct dirent *__wrap_readdir64(DIR *d)
{
    return __wrap_readdir(d);
}
