/* slowwrite: LD_PRELOAD shim.  Every write() to a socket first sleeps SLOWWRITE_MS milliseconds: the pieces of a
 * multi-write handshake are spread out in time, so that a peer can go away between two of them. */
#define _GNU_SOURCE
#include <dlfcn.h>
#include <stdlib.h>
#include <unistd.h>
#include <time.h>
#include <sys/stat.h>
#include <sys/types.h>

ssize_t write(int fd, const void *buf, size_t n)
{
    static ssize_t (*real)(int, const void *, size_t);
    const char *s = getenv("SLOWWRITE_MS");
    long ms = s ? atol(s) : 0;
    struct stat st;
    if (!real)
        real = (ssize_t (*)(int, const void *, size_t)) dlsym(RTLD_NEXT, "write");
    if (ms > 0 && fstat(fd, &st) == 0 && S_ISSOCK(st.st_mode)) {
        struct timespec ts = { ms / 1000, (ms % 1000) * 1000000L };
        nanosleep(&ts, NULL);
    }
    return real(fd, buf, n);
}
