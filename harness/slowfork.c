/* slowfork: LD_PRELOAD shim.  fork() first sleeps SLOWFORK_MS milliseconds in the caller: worker threads that are about
 * to start their commands pile up between "descriptors created" and "child forked". */
#define _GNU_SOURCE
#include <dlfcn.h>
#include <stdlib.h>
#include <unistd.h>
#include <time.h>
#include <sys/types.h>

pid_t fork(void)
{
    static pid_t (*real)(void);
    const char *s = getenv("SLOWFORK_MS");
    long ms = s ? atol(s) : 0;
    if (!real)
        real = (pid_t (*)(void)) dlsym(RTLD_NEXT, "fork");
    if (ms > 0) {
        struct timespec ts = { ms / 1000, (ms % 1000) * 1000000L };
        nanosleep(&ts, NULL);
    }
    {
        pid_t pid = real();
        const char *a = getenv("SLOWFORK_AFTER_MS");
        long ams = a ? atol(a) : 0;
        if (pid > 0 && ams > 0) {            /* the parent lingers right after the fork */
            struct timespec ts = { ams / 1000, (ams % 1000) * 1000000L };
            nanosleep(&ts, NULL);
        }
        return pid;
    }
}
