/* slowsetsid: LD_PRELOAD shim.  setsid() first sleeps SLOWSETSID_MS milliseconds: the freshly forked child of an
 * exec-style transport stays for a while in the state "forked, not yet its own session" (an interrupt can land there). */
#define _GNU_SOURCE
#include <dlfcn.h>
#include <stdlib.h>
#include <unistd.h>
#include <time.h>
#include <sys/types.h>

pid_t setsid(void)
{
    static pid_t (*real)(void);
    const char *s = getenv("SLOWSETSID_MS");
    long ms = s ? atol(s) : 0;
    if (!real)
        real = (pid_t (*)(void)) dlsym(RTLD_NEXT, "setsid");
    if (ms > 0) {
        struct timespec ts = { ms / 1000, (ms % 1000) * 1000000L };
        nanosleep(&ts, NULL);
    }
    return real();
}
