/* C09 rsh wire harness: xrcmd.c of the repository #included; xrcmd() really connects over loopback.
 * connect(2) is wrapped at link time only to redirect port 514 to the port of the scripted rsh
 * peer (a thread of this program).  The peer reads the request up to its fourth NUL (1 s limit),
 * connects back from a reserved port when a stderr port is announced, answers with one NUL byte
 * and closes first (no TIME_WAIT on the reserved ports).
 * case:   wire <want_stderr 0|1> <locuser> <remuser> <cmd>     (hex, "-" = empty)
 * answer: OK <rv 0|-1> <bytes received by the peer, hex> <nuls> <connected_back 0|1>
 * must run as root (reserved ports). */
#include <pthread.h>
#include <poll.h>
#include "src/modules/xrcmd.c"

static int peer_port, lsock;
static unsigned char got[1 << 16]; static int ngot, nnul, cback;

int __real_connect(int fd, const struct sockaddr *sa, socklen_t len);
int __wrap_connect(int fd, const struct sockaddr *sa, socklen_t len)
{
    struct sockaddr_in sin;
    if (sa->sa_family == AF_INET && len >= sizeof(sin)) {
        memcpy(&sin, sa, sizeof(sin));
        if (sin.sin_port == htons(RSH_PORT)) { sin.sin_port = htons(peer_port); return __real_connect(fd, (struct sockaddr *)&sin, sizeof(sin)); }
    }
    return __real_connect(fd, sa, len);
}

static void *peer(void *x)
{
    struct pollfd p; int c, s2 = -1, first_done = 0;
    ngot = nnul = cback = 0;
    p.fd = lsock; p.events = POLLIN;
    if (poll(&p, 1, 3000) <= 0) return NULL;
    c = accept(lsock, NULL, NULL);
    if (c < 0) return NULL;
    while (nnul < 4 && ngot < (int)sizeof(got)) {
        unsigned char ch; int r;
        p.fd = c; p.events = POLLIN;
        if (poll(&p, 1, 1000) <= 0) break;
        r = read(c, &ch, 1);
        if (r != 1) break;
        got[ngot++] = ch;
        if (ch == 0) {
            nnul++;
            if (!first_done) {
                first_done = 1;
                if (ngot > 1) {      /* a stderr port was announced: connect back from a reserved port */
                    int lp = IPPORT_RESERVED - 1; struct sockaddr_in sin; struct linger lg = { 1, 0 };
                    s2 = rresvport(&lp);
                    memset(&sin, 0, sizeof(sin)); sin.sin_family = AF_INET;
                    sin.sin_addr.s_addr = htonl(INADDR_LOOPBACK); sin.sin_port = htons(atoi((char *)got));
                    if (s2 >= 0 && __real_connect(s2, (struct sockaddr *)&sin, sizeof(sin)) == 0) cback = 1;
                    if (s2 >= 0) setsockopt(s2, SOL_SOCKET, SO_LINGER, &lg, sizeof(lg));
                }
            }
        }
    }
    if (nnul == 4) { if (write(c, "", 1) < 0) { } }
    usleep(2000);
    if (s2 >= 0) close(s2);
    close(c);
    return NULL;
}

static int hexv(int c) { return c >= 'a' ? c - 'a' + 10 : c - '0'; }
static char *unhex(const char *h)
{
    size_t n = strcmp(h, "-") ? strlen(h) / 2 : 0, i;
    char *s = malloc(n + 1);
    for (i = 0; i < n; i++) s[i] = (char)(hexv(h[2 * i]) * 16 + hexv(h[2 * i + 1]));
    s[n] = 0;
    return s;
}

int main(void)
{
    char *line = NULL; size_t cap = 0; struct sockaddr_in sin; socklen_t sl = sizeof(sin);
    unsigned char addr[4] = { 127, 0, 0, 1 };
    err_init("pdsh");
    lsock = socket(AF_INET, SOCK_STREAM, 0);
    memset(&sin, 0, sizeof(sin)); sin.sin_family = AF_INET; sin.sin_addr.s_addr = htonl(INADDR_LOOPBACK);
    if (bind(lsock, (struct sockaddr *)&sin, sizeof(sin)) < 0 || listen(lsock, 8) < 0) { printf("NOLISTEN\n"); return 1; }
    getsockname(lsock, (struct sockaddr *)&sin, &sl);
    peer_port = ntohs(sin.sin_port);
    /* reserved-port contention: every even reserved port is taken, so the port just below the one the main connection
     * gets is never free - the stderr port that is announced must be the one that was really bound */
    {
        int q;
        for (q = 512; q < 1024; q += 2) {
            int hs = socket(AF_INET, SOCK_STREAM, 0);
            struct sockaddr_in ha;
            memset(&ha, 0, sizeof(ha)); ha.sin_family = AF_INET; ha.sin_addr.s_addr = htonl(INADDR_ANY); ha.sin_port = htons(q);
            if (hs >= 0 && bind(hs, (struct sockaddr *)&ha, sizeof(ha)) < 0) close(hs);     /* kept open otherwise */
        }
    }
    while (getline(&line, &cap, stdin) > 0) {
        char *save = NULL, *op = strtok_r(line, " \n", &save);
        char *w = strtok_r(NULL, " \n", &save), *l = strtok_r(NULL, " \n", &save);
        char *r = strtok_r(NULL, " \n", &save), *c = strtok_r(NULL, " \n", &save);
        pthread_t th; int fd2 = -1, s, i; void *arg = NULL;
        if (!op || !w || !l || !r || !c || strcmp(op, "wire")) { printf("BADCASE\n"); fflush(stdout); continue; }
        char *lu = unhex(l), *ru = unhex(r), *cmd = unhex(c);
        pthread_create(&th, NULL, peer, NULL);
        s = xrcmd("localhost", (char *)addr, lu, ru, cmd, 0, atoi(w) ? &fd2 : NULL, &arg);
        if (s >= 0) { char ch; while (read(s, &ch, 1) > 0) { } }   /* let the peer close first */
        pthread_join(th, NULL);
        if (s >= 0) close(s);
        if (fd2 >= 0) close(fd2);
        printf("OK %d ", s >= 0 ? 0 : -1);
        if (!ngot) putchar('-');
        for (i = 0; i < ngot; i++) printf("%02x", got[i]);
        printf(" %d %d\n", nnul, cback);
        fflush(stdout);
        free(lu); free(ru); free(cmd);
    }
    return 0;
}
