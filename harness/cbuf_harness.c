/* cbuf engine, implementation side: the repository's cbuf.c (as pdsh builds it, NDEBUG)
 * with read(2) replaced by a scripted descriptor.  One history per line:
 *   <min> <max> <op> <op> ...          ops (no blanks inside an op):
 *   w:<hex>  f:<len|-1>:<script>  r:<len> p:<len> d:<len|-1>
 *   rl:<len>:<lines> pl:<len>:<lines> dl:<len>:<lines>  wl:<hex>  o:<0|1|2>  fl
 *   script = items separated by '/':  A<hex> (bytes available)  E (EOF)  X (error)
 * Output: one line, per op "ret[,extra]" fields then "|used,free,size,lines" joined by ' '.
 */
#include <unistd.h>
#include <errno.h>
#include <string.h>
#include <stdio.h>
#include <stdlib.h>

static ssize_t harness_read(int fd, void *buf, size_t n);
/* the k-th realloc from now on fails once (op RF:<k>): the growth step meets an out-of-memory condition */
static int fail_realloc;
static void *harness_realloc(void *p, size_t n)
{
    if (fail_realloc > 0 && --fail_realloc == 0) {
        errno = ENOMEM;
        return NULL;
    }
    return realloc(p, n);
}
#define read harness_read
#define realloc harness_realloc
#include "src/pdsh/cbuf.c"
#undef realloc
#undef read

void lsd_fatal_error(char *file, int line, char *mesg)
{
    fprintf(stderr, "fatal: %s\n", mesg);
    abort();
}

/* ---- scripted descriptor ---- */
#define MAXEV 256
static struct { int kind; unsigned char *b; size_t n, off; } ev[MAXEV];
static int nev, cur;
static long consumed;   /* bytes the scripted descriptor handed out during the current operation */

static ssize_t harness_read(int fd, void *buf, size_t n)
{
    if (cur >= nev)
        return 0;
    if (ev[cur].kind == 'E')
        return 0;
    if (ev[cur].kind == 'X') {
        cur++;
        errno = EAGAIN;
        return -1;
    }
    {
        size_t k = ev[cur].n - ev[cur].off;
        if (k > n) k = n;
        memcpy(buf, ev[cur].b + ev[cur].off, k);
        ev[cur].off += k;
        consumed += (long)k;
        if (ev[cur].off == ev[cur].n)
            cur++;
        return (ssize_t)k;
    }
}

static int hexv(int c)
{
    if (c >= '0' && c <= '9') return c - '0';
    if (c >= 'a' && c <= 'f') return c - 'a' + 10;
    return -1;
}
static unsigned char *unhex(const char *h, size_t *n)
{
    unsigned char *s;
    size_t i;
    if (h[0] == '-' || h[0] == 0) {
        *n = 0;
        return calloc(1, 1);
    }
    *n = strlen(h) / 2;
    s = malloc(*n + 1);
    for (i = 0; i < *n; i++)
        s[i] = (unsigned char)(hexv(h[2 * i]) * 16 + hexv(h[2 * i + 1]));
    s[*n] = 0;
    return s;
}
static void puthex(const unsigned char *s, size_t n)
{
    size_t i;
    if (n == 0) {
        putchar('-');
        return;
    }
    for (i = 0; i < n; i++)
        printf("%02x", s[i]);
}

static void load_script(char *s)
{
    char *p, *save = NULL;
    for (int i = 0; i < nev; i++)
        if (ev[i].b) { free(ev[i].b); ev[i].b = NULL; }
    nev = cur = 0;
    for (p = strtok_r(s, "/", &save); p && nev < MAXEV; p = strtok_r(NULL, "/", &save)) {
        ev[nev].kind = p[0];
        ev[nev].off = 0;
        ev[nev].b = NULL;
        ev[nev].n = 0;
        if (p[0] == 'A')
            ev[nev].b = unhex(p + 1, &ev[nev].n);
        nev++;
    }
}

static void state(cbuf_t cb)
{
    printf("|%d,%d,%d,%d", cbuf_used(cb), cbuf_free(cb), cbuf_size(cb), cbuf_lines_used(cb));
}

int main(void)
{
    char *line = NULL;
    size_t cap = 0;
    setvbuf(stdout, NULL, _IOFBF, 1 << 16);
    while (getline(&line, &cap, stdin) > 0) {
        char *save = NULL;
        char *tok = strtok_r(line, " \n", &save);
        int mn, mx;
        cbuf_t cb;
        if (!tok) { printf("BADCASE\n"); fflush(stdout); continue; }
        mn = atoi(tok);
        tok = strtok_r(NULL, " \n", &save);
        mx = tok ? atoi(tok) : 0;
        fail_realloc = 0;
        cb = cbuf_create(mn, mx);
        if (!cb) { printf("NOCREATE\n"); fflush(stdout); continue; }
        printf("C");
        state(cb);
        while ((tok = strtok_r(NULL, " \n", &save))) {
            char *a1 = strchr(tok, ':'), *a2 = NULL;
            if (a1) { *a1++ = 0; a2 = strchr(a1, ':'); if (a2) *a2++ = 0; }
            putchar(' ');
            if (!strcmp(tok, "w")) {
                size_t n; unsigned char *b = unhex(a1, &n);
                int nd = -7, r = cbuf_write(cb, b, (int)n, &nd);
                printf("%d,%d", r, nd);
                free(b);
            } else if (!strcmp(tok, "f")) {
                int len = atoi(a1), nd = -7, r;
                load_script(a2 ? a2 : (char *)"");
                consumed = 0;
                r = cbuf_write_from_fd(cb, 0, len, &nd);
                printf("%d,%d", r, r < 0 ? 0 : nd);
                if (consumed != (r > 0 ? r : 0))   /* bytes taken from the descriptor that the call does not account for */
                    printf(",TOOK%ld", consumed);
            } else if (!strcmp(tok, "r") || !strcmp(tok, "p")) {
                int len = atoi(a1), r;
                unsigned char *b = malloc(len + 1);
                r = tok[0] == 'r' ? cbuf_read(cb, b, len) : cbuf_peek(cb, b, len);
                printf("%d,", r);
                puthex(b, r > 0 ? r : 0);
                free(b);
            } else if (!strcmp(tok, "d")) {
                printf("%d", cbuf_drop(cb, atoi(a1)));
            } else if (!strcmp(tok, "rl") || !strcmp(tok, "pl")) {
                int len = atoi(a1), lines = atoi(a2), r;
                char *b = malloc(len + 1);
                memset(b, 0x55, len + 1);
                r = tok[0] == 'r' ? cbuf_read_line(cb, b, len, lines) : cbuf_peek_line(cb, b, len, lines);
                printf("%d,", r);
                if (r > 0 && len > 0) {
                    size_t k = r < len - 1 ? r : len - 1;
                    if (b[k] != 0) printf("UNTERMINATED");
                    else puthex((unsigned char *)b, k);
                } else
                    printf("_");
                free(b);
            } else if (!strcmp(tok, "dl")) {
                printf("%d", cbuf_drop_line(cb, atoi(a1), atoi(a2)));
            } else if (!strcmp(tok, "wl")) {
                size_t n; unsigned char *b = unhex(a1, &n);
                int nd = -7, r = cbuf_write_line(cb, (char *)b, &nd);
                printf("%d,%d", r, nd);
                free(b);
            } else if (!strcmp(tok, "o")) {
                printf("%d", cbuf_opt_set(cb, CBUF_OPT_OVERWRITE, atoi(a1) == 0 ? CBUF_NO_DROP : atoi(a1) == 1 ? CBUF_WRAP_ONCE : CBUF_WRAP_MANY));
            } else if (!strcmp(tok, "RF")) {
                fail_realloc = atoi(a1);
                printf("0");
            } else if (!strcmp(tok, "fl")) {
                cbuf_flush(cb);
                printf("0");
            } else
                printf("BADOP");
            state(cb);
        }
        putchar('\n');
        fflush(stdout);
        cbuf_destroy(cb);
    }
    return 0;
}
