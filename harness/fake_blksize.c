/* fake_blksize: linked into the pdcp under test with -Wl,--wrap=fstat.  With PCP_FAKE_BLKSIZE set, fstat() reports that
 * preferred I/O block size (file systems report many values: 512, 4096, 128 KiB, sizes that are no power of two, 0). */
#include <stdlib.h>
#include <sys/stat.h>

int __real_fstat(int fd, struct stat *st);

int __wrap_fstat(int fd, struct stat *st)
{
    int rc = __real_fstat(fd, st);
    const char *s = getenv("PCP_FAKE_BLKSIZE");
    if (rc == 0 && s)
        st->st_blksize = atol(s);
    return rc;
}
