/* a do-nothing rcmd module named "exec" for the settings/argument checks (DSH and PCP,
 * no option restrictions): connections always fail, nothing is ever contacted */
#if HAVE_CONFIG_H
#include "config.h"
#endif
#include "src/pdsh/opt.h"
#include "src/pdsh/mod.h"
#include "src/pdsh/rcmd.h"
int pdsh_module_priority = DEFAULT_MODULE_PRIORITY;
static int n_init(opt_t *o) { rcmd_opt_set(RCMD_OPT_RESOLVE_HOSTS, 0); return 0; }
static int n_sig(int fd, void *a, int s) { return 0; }
static int n_rcmd(char *h, char *ad, char *lu, char *ru, char *c, int r, int *fd2p, void **arg) { return -1; }
static int n_destroy(void *a) { return 0; }
struct pdsh_module_operations n_ops = { NULL, NULL, NULL, NULL };
struct pdsh_rcmd_operations n_rops = { (RcmdInitF) n_init, (RcmdSigF) n_sig, (RcmdF) n_rcmd, (RcmdDestroyF) n_destroy };
struct pdsh_module_option n_opts[] = { PDSH_OPT_TABLE_END };
struct pdsh_module pdsh_module_info = { "rcmd", "exec", "verif", "null transport", DSH | PCP, &n_ops, &n_rops, &n_opts[0] };
