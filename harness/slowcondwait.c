/* slowcondwait: LD_PRELOAD shim.  pthread_cond_wait() first sleeps SLOWCONDWAIT_MS milliseconds (still holding the mutex):
 * the gap between "the condition was tested" and "the thread sleeps on the condition variable" becomes wide. */
#define _GNU_SOURCE
#include <dlfcn.h>
#include <stdlib.h>
#include <time.h>
#include <pthread.h>

int pthread_cond_wait(pthread_cond_t *c, pthread_mutex_t *m)
{
    static int (*real)(pthread_cond_t *, pthread_mutex_t *);
    const char *s = getenv("SLOWCONDWAIT_MS");
    long ms = s ? atol(s) : 0;
    if (!real)
        real = (int (*)(pthread_cond_t *, pthread_mutex_t *)) dlsym(RTLD_NEXT, "pthread_cond_wait");
    if (ms > 0) {
        struct timespec ts = { ms / 1000, (ms % 1000) * 1000000L };
        nanosleep(&ts, NULL);
    }
    return real(c, m);
}
